"""Property -> rules mapping."""
from . import facts
from .rules.common import Ctx

_ctx = {}


def ctx(cfg="rc"):
    if cfg not in _ctx:
        _ctx[cfg] = Ctx(facts.load(cfg))
    return _ctx[cfg]


def R(mod, name, cfg="rc"):
    def run(tier):
        import importlib
        m = importlib.import_module(f"kv.rules.{mod}")
        return getattr(m, name)(ctx(cfg), tier)
    run.__name__ = name
    run._mod = mod
    run._cfg = cfg
    return run


PROPS = {
    "C15": dict(
        rules=[R("strings", "rule_unsafe_bounds"), R("strings", "rule_str_option"), R("strings", "rule_slice_tail"), R("strings", "rule_width_units"), R("strings", "rule_bounds_order")],
        clause="A string value can only be built from bounds validated against its data, so slicing cannot yield malformed "
               "text (R-UNSAFE-BOUNDS); a slice that would cut through a character becomes an error, never an unwrap "
               "(R-STR-OPTION); a constant number of bytes is cut off a string's end only after an ends_with test "
               "(R-SLICE-TAIL); the width and precision of a format spec are compared with grapheme counts, never byte "
               "lengths (R-WIDTH-UNITS); unwrapped with_bounds ranges are ordered by construction (R-BOUNDS-ORDER). Not decided: "
               "results of split/trim/replace/format, grapheme segmentation.",
        technique="construction-site census of the get_unchecked-backed type with dominating-validation analysis over MIR; "
                  "unit taint (byte length vs grapheme count) over expression trees",
    ),
    "C19": dict(
        rules=[R("memory", "rule_build_diff", "arc"), R("memory", "rule_sibling_api", "arc"),
               R("memory", "rule_atomic", "arc"), R("borrow", "rule_borrow_arc", "arc"),
               R("memory", "rule_snapshot_writeback", "arc"), R("borrow", "rule_recursive_read", "arc"),
               R("borrow", "rule_len_then_index", "arc")],
        clause="The two runtimes are the same program outside the pointer/cell module: every shared function has the same "
               "callee multiset, branch count and arity in the rc and the arc build modulo the Rc/Arc, RefCell/RwLock "
               "renaming (R-BUILD-DIFF), and ptr_impl::{rc,arc} are siblings with non-blocking try_* variants "
               "(R-SIBLING-API); no operation re-acquires a lock it holds (self-deadlock under RwLock, R-BORROW on the arc "
               "build); no single container operation establishes a fact under one lock acquisition and acts on it under "
               "another (R-ATOMIC); no operation overwrites a whole container with a stale copy of itself "
               "(R-SNAPSHOT-WRITEBACK) or asks for a second read lock on a container whose read lock it holds "
               "(R-RECURSIVE-READ). a panicking index on a shared list's data never uses an index validated against a separate `len()` acquisition (R-LEN-THEN-INDEX). Not decided: linearizability, lost-update freedom in general, behaviour of operations "
               "that run user callbacks.",
        technique="cross-configuration fact diff (two cargo feature sets) + guard live-range / lock re-acquisition "
                  "analysis on the arc build",
    ),
    "C17": dict(
        rules=[R("dispatch", "rule_metakey_tables"), R("dispatch", "rule_dispatch_refs"), R("dispatch", "rule_dispatch_order"),
               R("dispatch", "rule_obj_defaults"), R("dispatch", "rule_dispatch_operands"), R("arith", "rule_rem_zero"),
               R("dispatch", "rule_base_walk"), R("vm", "rule_barrier_frame"), R("vm", "rule_unpack_once"),
               R("vm", "rule_reg_distinct")],
        clause="The metakey tables are total and name-preserving end to end (R-METAKEY-TABLES); each operator function "
               "references only its own metakeys and object methods and applies its own number operation (R-DISPATCH-REFS); "
               "the arm priority equals the documented order with each metamap arm guarded by its own key "
               "(R-DISPATCH-ORDER); a function found under `@r…` runs with the right operand as its instance (R-DISPATCH-OPERANDS); KotoObject defaults report unimplemented or derive as documented (R-OBJ-DEFAULTS); "
               "`x % y` and `x %= y` agree on the zero-divisor guard (R-REM-ZERO); the loops that climb the `@base` chain look "
               "entries up in the map they have climbed to (R-BASE-WALK); the execution barrier is only set on a frame the call "
               "really pushed (R-BARRIER-FRAME); packed call arguments are unpacked once (R-UNPACK-ONCE); no operation is handed the same register for two "
               "operands (R-REG-DISTINCT). Not decided: lookup order through @meta/@base, results of "
               "overloaded operators, operands of host-object calls.",
        technique="table reconstruction from HIR arm lists and MIR aggregates; per-function reference census",
    ),
    "C20": dict(
        rules=[R("interchange", "rule_serde_kinds"), R("interchange", "rule_serde_enc"), R("interchange", "rule_parse_err"), R("interchange", "rule_serde_narrow"),
               R("strings", "rule_char_units")],
        clause="The kind tables of writer and reader agree in both directions: every serde method the KValue writer calls "
               "has a non-default visitor counterpart building the same kind, with no numeric conversion in the writer and "
               "checked narrowing in the visitor (R-SERDE-KINDS); every KValue kind the Rust-data Serializer produces for a "
               "serde kind is accepted by the Deserializer's method for that kind (R-SERDE-ENC); the JSON/YAML/TOML "
               "libraries never unwrap a parse result (R-PARSE-ERR). integer requests of the Deserializer convert the number with a checked conversion (R-SERDE-NARROW). an exact size test guarding char-wise reads counts chars, not bytes (R-CHAR-UNITS: deserialize_char). Not decided: round-trip equality of values, number "
               "formatting, text corner cases.",
        technique="writer/reader table reconstruction from match-lowered MIR (discriminant switches, aggregates, "
                  "unresolved trait-method calls)",
    ),
    "C14": dict(
        rules=[R("values", "rule_hasheq"), R("values", "rule_immut"), R("values", "rule_map_order"),
               R("values", "rule_fresh"), R("narrow", "rule_stale_index"), R("values", "rule_replace_atomic")],
        clause="Hash agrees with Eq for map keys (R-HASHEQ); tuples, strings and ranges have no interior mutability "
               "between handle and storage (R-IMMUT); only order-preserving map operations are used outside map.sort / "
               "random.shuffle, and the replace-at-index idiom is complete and guarded (R-MAP-ORDER); `+` and "
               "copy/deep_copy build fresh containers (R-FRESH). a map is never addressed by a position looked up before user code ran (R-STALE-INDEX). Not decided: equality and ordering laws over values, "
               "sort correctness, aliasing histories.",
        technique="cast/callee census of sibling impls (Hash vs Eq); ADT type walk; who-may-call + idiom dominance over MIR",
    ),
    "C16": dict(
        rules=[R("tc", "rule_tc_flag"), R("tc", "rule_tc_pure"), R("tc", "rule_tc_null_first"),
               R("placeholder", "rule_placeholder"), R("placeholder", "rule_match_target"),
               R("tc", "rule_tc_hint_sibling")],
        level="proof",
        clause="Second sentence as a closed non-interference argument: the enable_type_checks flag is read once and guards "
               "only the emission of the assert instructions with their span (R-TC-FLAG); the VM's handling of a passing "
               "assertion is effect-free (R-TC-PURE); `?` admits null before any type-name handling (R-TC-NULL-FIRST); "
               "jump offsets are relative and patched after emission (R-PLACEHOLDER), so removing the assert instructions "
               "cannot change any other instruction's effect. A failed type pattern of a match arm is routed by the alternative's "
               "position like every other pattern (R-MATCH-TARGET); every binding routine that reads the hint of `x: T` reads the "
               "hint of `_: T` too (R-TC-HINT-SIBLING). Not decided: that a check fires exactly when the type name "
               "mismatches.",
        technique="field-read census + control-dependence region analysis + call-graph effect closure (proof obligations)",
    ),
    "C01": dict(
        rules=[R("enc", "rule_enc"), R("enc", "rule_handlers"), R("arith", "rule_num_wrap"), R("arith", "rule_div_float"), R("enc", "rule_varint"),
               R("arith", "rule_float_notation")],
        clause="Every instruction the compiler emits has the byte layout its decoder reads, and every opcode / instruction "
               "has a consumer (R-ENC, R-HANDLERS); integer `+ - * % ^` and negation wrap and `/` always builds a float, by construction of KNumber's "
               "operator impls (R-NUM-WRAP, R-DIV-FLOAT). the reader masks every var-int byte with 0x7f, matching the writer (R-VARINT); floats are rendered through Display, never through Debug / exponent formatting (R-FLOAT-NOTATION). Not decided: result values, evaluation order, "
               "short-circuiting, stale result registers, independence from surrounding code (properties of emitted "
               "code paths).",
        technique="Assert-terminator census and aggregate-variant census over the operator impls' MIR",
    ),
    "C10": dict(
        rules=[R("front", "rule_indent"), R("front", "rule_indent_chain")],
        clause="Second sentence only: for each construct the property lists, the parser path on which the block / "
               "right-hand side is missing constructs an error of the ExpectedIndentation class and nothing else "
               "(R-INDENT), and the flag survives every wrapper up to koto::Error::is_indentation_error "
               "(R-INDENT-CHAIN). Not decided: equivalence of layout variants (first sentence), 'never after a "
               "complete statement'.",
        technique="generic-argument census of the parser's error constructors + MIR region/dominance analysis",
    ),
    "C11": dict(
        rules=[R("front", "rule_fmt_fields"), R("front", "rule_fmt_variants"), R("front", "rule_column_bytes"),
               R("front", "rule_fmt_spec"), R("front", "rule_line_offsets")],
        clause="Every syntax-carrying AST field is read by the formatter (R-FMT-FIELDS) and every Node variant has its "
               "own arm in format_node (R-FMT-VARIANTS): a field never read cannot influence the output; source text that "
               "is re-emitted verbatim (numbers, debug expressions) is not located by using a display column as a byte "
               "offset (R-COLUMN-BYTES); the fields of a string format spec are re-emitted independently of each other "
               "(R-FMT-SPEC); line start offsets are never summed from the lengths of `lines()` items, which drop `\\r\\n` as well "
               "as `\\n` (R-LINE-OFFSETS). Not decided: idempotence, comment order, how a field that is read gets rendered.",
        technique="field-read census over koto_format's MIR against the AST's ADT facts; HIR arm list; unit taint "
                  "(display column -> str slice bound) over expression trees",
    ),
    "C13": dict(
        rules=[R("iters", "rule_iter_copy"), R("iters", "rule_iter_err"), R("iters", "rule_iter_lazy"),
               R("narrow", "rule_cursor"), R("iters", "rule_pull_one")],
        clause="Copies own copied inner iterators (R-ITER-COPY); iterator outputs that may carry an error are never "
               "dropped, including by std consumers that discard items (R-ITER-ERR); adaptor constructors pull nothing "
               "from their source (R-ITER-LAZY); exhausted iterators whose cursor overshoots can still be asked for their "
               "size hint (R-CURSOR); a two-source adaptor looks at what one source produced before it pulls from the other "
               "(R-PULL-ONE). Not decided: the sequences adaptors produce (cursor arithmetic), pull "
               "order inside next().",
        technique="type walk over ADT facts + MIR def-use (handle fields, output evidence) + call-graph reachability",
    ),
    "C04": dict(
        rules=[R("vm", "rule_frames"), R("vm", "rule_catch_restore"), R("iters", "rule_iter_err"), R("values", "rule_replace_atomic"), R("compiler", "rule_try_exit"), R("vm", "rule_err_kind"), R("vm", "rule_err_swallow"),
               R("compiler", "rule_catch_last"), R("vm", "rule_unwind_no_result"), R("errdiscard", "rule_err_discard"),
               R("trycount", "rule_try_count"), R("trycount", "rule_finally_catch")],
        clause="Every nested interpreter entry sets the execution barrier and pops its frame when the nested run fails "
               "(R-FRAMES); resuming at a catch handler restores the sequence/string builder stacks (R-CATCH-RESTORE); "
               "no iterator output that may carry an error is dropped on its way up through adaptors and consumers "
               "(R-ITER-ERR). the multi-step replace-at-index of a map entry cannot be interrupted by an error exit (R-REPLACE-ATOMIC). break / continue emit TryEnd for the try blocks they leave, the only way a catch point is removed (R-TRY-EXIT). a thrown value travels as an Error, never as its rendering (R-ERR-KIND). a failed overloaded operator is never replaced by the fallback's outcome unless it threw koto.unimplemented (R-ERR-SWALLOW). a conditional last catch block rethrows what it does not accept (R-CATCH-LAST). a frame discarded by the unwinder delivers no result to the surviving frame, so `v = f()` leaves v as it was when f throws (R-UNWIND-NO-RESULT). the error of a re-entrant call is never reduced to its discriminant and replaced (R-ERR-DISCARD). the compiler's active-try-block count, from which break / continue emit TryEnd, mirrors the registered catch points at every recursive compile call (R-TRY-COUNT). code compiled between the catch entry and the finally block runs under a catch point, without which an error there skips `finally` (R-FINALLY-CATCH; a known finding on the pinned tree). Not decided: finally on every path, handler scoping across break/continue/return "
               "(emitted control flow), variable state after a catch beyond the result register of the abandoned call.",
        technique="MIR path rules (sibling protocol at nested entries, must-pass-through) + linear-value evidence rule; call-graph "
                  "reachability from the unwinder to register writes; def-use census of the Result locals of re-entrant calls; "
                  "typestate walk (registered catch point x counted try block) at recursive compile calls",
    ),
    "C06": dict(
        rules=[R("borrow", "rule_borrow"), R("arith", "rule_arith"), R("arith", "rule_rem_zero"), R("arith", "rule_accum"),
               R("arith", "rule_num_wrap"), R("narrow", "rule_narrow"), R("narrow", "rule_vm_regs"),
               R("narrow", "rule_cursor"), R("front", "rule_column_bytes"), R("strings", "rule_slice_tail"),
               R("narrow", "rule_stale_index"), R("strings", "rule_conv_unwrap"), R("narrow", "rule_sign_index"),
               R("strings", "rule_bounds_order"), R("vm", "rule_barrier_frame"), R("vm", "rule_unpack_once")],
        clause="Panic families visible in code shape: a RefCell guard of a shared container held across re-entrant or "
               "aliasing code (R-BORROW); script-supplied i64 values reaching overflow-/zero-/shift-checked arithmetic "
               "with no dominating guard of the needed kind (R-ARITH, R-REM-ZERO); digit accumulators in input-driven "
               "loops without a bound inside the loop (R-ACCUM); the number tower itself never uses checked integer "
               "arithmetic (R-NUM-WRAP); the compiler's byte-width arithmetic and narrowing casts on program-size "
               "quantities are bounded (R-NARROW), and the VM does not add to a frame's register count in byte "
               "arithmetic (R-VM-REGS); an iterator cursor that can step past its input's length is compared with it "
               "before `len - cursor` (R-CURSOR); span columns are not used as byte offsets of str slices (R-COLUMN-BYTES), and a constant number of "
               "bytes is cut off a string's end only after an ends_with test (R-SLICE-TAIL); no panicking `[]` on a shared "
               "container inside a loop that runs user callbacks (R-STALE-INDEX); an unwrapped value-dependent conversion "
               "(char::from_u32, to_digit, try_from) is dominated by a test that makes it succeed (R-CONV-UNWRAP); a signed script value is cast to usize only "
               "when provably non-negative (R-SIGN-INDEX); an unwrapped with_bounds(start..end) has ordered bounds by "
               "construction (R-BOUNDS-ORDER). the execution barrier is only set on a frame the call really pushed (R-BARRIER-FRAME: `Empty call stack` panic) and packed call arguments are unpacked once (R-UNPACK-ONCE: slice panic). Not decided: panic-freedom in general (unwrap/index sites justified by data "
               "invariants are out of scope and counted as undecided where met).",
        technique="guard live-range dataflow over MIR x whole-workspace call graph (CHA + callback-through-bounds "
                  "edges); Assert-terminator census with dominating-guard classification; interval analysis of byte-width "
                  "sites over expression trees of named size leaves (dominating guards, correlated-condition pruning, "
                  "caller- and producer-established bounds); belief rules between sibling methods (cursor overshoot vs "
                  "unguarded subtraction); unit taint (display column -> byte offset)",
    ),
    "C03": dict(
        rules=[R("placeholder", "rule_placeholder"), R("placeholder", "rule_match_order"),
               R("placeholder", "rule_match_target")],
        clause="The three jump lists of a match arm are patched where the arm's structure requires (R-MATCH-ORDER), and a "
               "pattern's mismatch jump is filed in the list that matches the alternative's position: skip-the-arm only in "
               "the last alternative, next-alternative only in the others (R-MATCH-TARGET). "
               "Every conditional jump emitted for a pattern, alternative, guard, type check or map-key test is filed in "
               "a placeholder list and patched on every path by the function that owns the list (R-PLACEHOLDER). An "
               "unpatched placeholder keeps offset 0, so a failed test falls into the arm. Not decided: which arm a "
               "subject selects, what gets bound.",
        technique="path-sensitive typestate (linear resources + owned collections) over MIR",
    ),
    "C12": dict(
        rules=[R("compiler", "rule_span"), R("vm", "rule_ip_sync"), R("vm", "rule_frame_save_restore")],
        clause="The compiler's span stack is balanced on every non-error path of every Compiler method, so no construct "
               "can shift the source positions of everything compiled after it (R-SPAN); the position the VM records for diagnostics is "
               "refreshed on every entry of the interpreter loop and after every instruction (R-IP-SYNC), and put back by pop_frame itself for whoever pops a frame (R-FRAME-SAVE-RESTORE). Not decided: which "
               "line a fault maps to, trace order, excerpt rendering.",
        technique="path-sensitive typestate (counter) over MIR with discriminant correlation; save/restore field agreement of "
                  "sibling methods (push_frame / pop_frame)",
    ),
    "C05": dict(
        rules=[R("enc", "rule_enc"), R("enc", "rule_handlers"), R("enc", "rule_enc_flags"),
               R("placeholder", "rule_placeholder"), R("compiler", "rule_jump_checked"), R("compiler", "rule_det"),
               R("narrow", "rule_narrow"), R("compiler", "rule_builder_bal"),
               R("compiler", "rule_func_skip"), R("compiler", "rule_frame_return"), R("enc", "rule_varint"),
               R("trycount", "rule_try_count")],
        clause="Writer/reader layout agreement for every (emission site, opcode) pair (R-ENC), including the StringPush flags "
               "byte (R-ENC-FLAGS); every opcode and instruction has a consumer (R-HANDLERS); every jump placeholder is "
               "patched (R-PLACEHOLDER); jump distances are range-checked, never truncated (R-JUMP-CHECKED); no "
               "hash-iteration order reaches the AST/bytecode (R-DET); every program-size quantity (lengths / indices of AST "
               "lists, local, capture and argument counts) is compared with the operand range -- compilation refused on "
               "the far side -- before it is narrowed to a byte, summed in byte arithmetic, or written where the reader "
               "decodes a signed byte (R-NARROW); per Compiler method, emitted SequenceStart/StringStart/TryStart are "
               "closed by the emitted SequenceTo*/StringFinish/TryEnd on every non-error path (R-BUILDER-BAL); a nested function's "
               "body is always preceded by a Function op or a Jump over it (R-FUNC-SKIP) and every frame ends in a Return "
               "unless its own last expression is a `return` (R-FRAME-RETURN). var-int bytes are masked with 0x7f by the reader as the writer assumes (R-VARINT). try blocks are counted for break / continue exactly while their catch point is registered (R-TRY-COUNT: no TryEnd too many or too few on a loop exit). Not decided: "
               "register/constant indices in range for all programs, balance across methods (nested constructs rely on "
               "each method being balanced).",
        technique="writer/reader grammar extraction from MIR (macro-provenance of decoder reads, array types and emission "
                  "continuations of encoder sites), typestate, def-use origin analysis, iterator taint, interval analysis "
                  "of narrowing sites over named size leaves with dominating-guard bounds",
    ),
    "C07": dict(
        rules=[R("vm", "rule_regs"), R("vm", "rule_frames"), R("vm", "rule_catch_restore"), R("vm", "rule_import"),
               R("vm", "rule_exec_state"), R("vm", "rule_unwind_all"), R("vm", "rule_builders_on_error")],
        clause="Structural necessary conditions of 'a failed run leaves the runtime clean': host-facing VM entries "
               "truncate the value stack on every exit (R-REGS); nested interpreter entries pop their frame on failure "
               "(R-FRAMES); builder stacks are restored at catch (R-CATCH-RESTORE); a failed import removes its cache "
               "placeholder and restores exports (R-IMPORT); execution_state is never left Active (R-EXEC-STATE). "
               "every error returned by the interpreter loop has passed the unwinder (R-UNWIND-ALL). an error that leaves the interpreter loop takes its unfinished sequence / string builders with it (R-BUILDERS-ON-ERROR). Not decided: behavioural equivalence with a fresh instance over arbitrary histories.",
        technique="MIR path rules (pairing on all exits) over a rustc_private fact dump; def-use origin of truncation bases; "
                  "call-graph scoped write census (module cache writes inside the module body)",
    ),
    "C08": dict(
        rules=[R("vm", "rule_timeout_poll"), R("vm", "rule_timeout_nocatch"), R("vm", "rule_unwind_all"), R("vm", "rule_err_kind"), R("vm", "rule_err_swallow"), R("errdiscard", "rule_err_discard")],
        clause="The deadline poll dominates every instruction dispatch in the interpreter loop (R-TIMEOUT-POLL) and a "
               "timeout is never offered to a catch handler, including timeouts returned by nested interpreter entries "
               "(R-TIMEOUT-NOCATCH). a timeout leaves the interpreter loop through the unwinder like every other error (R-UNWIND-ALL). errors keep their kind when they are passed on: no Error is rendered to text and re-wrapped (R-ERR-KIND). after a nested entry has failed only a thrown koto.unimplemented can lead on to a fallback, every other error is returned (R-ERR-SWALLOW). no error of a re-entrant call is replaced by an error of the caller's own, which would make a timeout catchable (R-ERR-DISCARD). Not decided: time bounds/slack, adaptive poll interval, native loops.",
        technique="MIR dominance / must-pass-through and constant-argument analysis (resolved loop function, caller-side "
                  "arming of a deadline parameter); def-use census of the Result locals of re-entrant calls",
    ),
    "C18": dict(
        rules=[R("vm", "rule_import"), R("vm", "rule_import_once"), R("vm", "rule_resolve_order"),
               R("compiler", "rule_force_export"), R("vm", "rule_module_canon"), R("vm", "rule_export_id")],
        clause="run_import rolls back on every failing path (R-IMPORT) and orders lookup -> placeholder -> module run, "
               "with the in-progress edge reaching only an error exit (R-IMPORT-ONCE); `name.koto` is tested before "
               "`name/main.koto` (R-RESOLVE-ORDER); with top-level exporting on, no export of an assigned id hinges on the "
               "explicit `export` flag alone (R-FORCE-EXPORT); the module cache key is a canonicalized path (R-MODULE-CANON); "
               "an import is exported under the id it was bound to (R-EXPORT-ID). Not decided: behaviour over "
               "arbitrary module graphs, resolution order, export visibility.",
        technique="MIR path and dominance rules on KotoVm::run_import; reachability under a flag hypothesis (pruned CFG) "
                  "with interprocedural flag evaluation over the compiler's export sites",
    ),
}

ASSUMPTIONS = [
    "rustc nightly's MIR (opt-level 0, no inlining) preserves the calls, drops and asserts of the debug build",
    "virtual calls are resolved by class-hierarchy analysis over workspace impls; trait objects implemented outside "
    "the workspace are assumed to honour the trait's documented contract",
    "unwind edges are ignored (a panic is itself a C06 violation)",
]


DESIGN_REF = {}

# Properties not (yet) claimed, with the reason.  Entries for properties that appear in PROPS are ignored.
NOT_APPLICABLE = {
    "C02": "argument binding and capture semantics are functions of run-time register contents and of the emitted "
           "bytecode; no clause is visible in the shape of the Rust code (DESIGN.md section 5)",
    "C09": "every clause constrains numeric cursor values computed from the input's characters; no structural "
           "necessary condition exists (DESIGN.md section 5)",
}


# rules whose crates also exist in the arc build set (memory, lexer, parser, bytecode, runtime, koto)
_ARC_OK = {"vm", "compiler", "placeholder", "borrow", "iters", "arith", "tc", "values", "dispatch", "enc", "strings"}
# rules whose subjects live in crates that only the default (rc) workspace build contains (cli, serde, format, ...):
# their instance floors cannot be met on the arc facts, and nothing they look at depends on the arc feature
_NOT_ARC = {"rule_indent_chain", "rule_accum", "rule_char_units", "rule_float_notation", "rule_serde_narrow"}


def arc_variants(prop):
    """the property's rc rules re-instantiated on the arc facts (thorough tier)"""
    out = []
    for rf in PROPS[prop]["rules"]:
        mod = getattr(rf, "_mod", None)
        cfg = getattr(rf, "_cfg", "rc")
        if cfg == "rc" and mod in _ARC_OK and rf.__name__ not in _NOT_ARC:
            out.append(R(mod, rf.__name__, "arc"))
    return out
