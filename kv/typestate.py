"""ESP-style path-sensitive property simulation over one function's CFG.

Property state: any hashable value, updated per block by a client transfer function.
Predicate state: possible discriminant values / truth values of *immutable* places (locals that are
never reassigned, and field paths of them), learned at switches and used to prune infeasible edges.
This is exactly enough for the repo's correlated idioms
(`if let Some(n) = span {push}` … `if span.is_some() {pop}`; `if x.is_temporary {pop_register}`).
"""
from .mir import op_base, op_int, op_local, op_place, place_fields

_TESTS = {
    # callee short-name suffix -> (true set of discriminants)
    "Option::is_some": {1},
    "Option::is_none": {0},
    "Result::is_ok": {0},
    "Result::is_err": {1},
}


class Explorer:
    def __init__(self, cx, fn, max_states=400000):
        self.cx = cx
        self.fn = fn
        self.cfg = cx.cfg(fn)
        self.du = cx.du(fn)
        self.max_states = max_states
        self.truncated = False
        self._assign_count = {}
        for l, ds in self.du.defs.items():
            self._assign_count[l] = len(ds)
        # locals whose address is taken mutably can change behind our back: never tracked
        self._addr_taken = set()
        for b in fn.blocks:
            if b.cleanup:
                continue
            for st in b.stmts:
                if st[0] == "a" and st[2][0] in ("ref", "rawptr") and (st[2][1] == "mut" or st[2][0] == "rawptr"):
                    pl = st[2][2]
                    if "*" not in pl[1]:
                        self._addr_taken.add(pl[0])
        # only predicates tested at least twice can correlate two branches; tracking the others only
        # multiplies states
        self._sk_cache = {}
        count = {}
        for b in fn.blocks:
            if b.cleanup or b.term[0] != "switch":
                continue
            sk = self.switch_key(b.idx)
            self._sk_cache[b.idx] = sk
            if sk is not None and sk[0] is not None:
                k = (("b" if sk[1] == "bool" else "d"), sk[0])
                count[k] = count.get(k, 0) + 1
        # whole-local assignments of ADT aggregates set a fact (see _stmt_facts): they count as well
        for b in fn.blocks:
            if b.cleanup:
                continue
            for st in b.stmts:
                if st[0] == "a" and not st[1][1] and st[2][0] == "agg" and st[2][1][0] == "adt" \
                        and st[1][0] not in self._addr_taken and not self._immutable(st[1][0]):
                    k = ("d", (st[1][0], ()))
                    count[k] = count.get(k, 0) + 1
        self.relevant = {k for k, n in count.items() if n >= 2}
        # locals (re)defined per block: facts about them die when the block is entered again (loops)
        self._defs_in_block = {}
        for l, ds in self.du.defs.items():
            for d in ds:
                self._defs_in_block.setdefault(d[0], set()).add(l)

    # ---- canonical keys for immutable places
    def _immutable(self, local):
        n = self._assign_count.get(local, 0)
        if 1 <= local <= self.fn.argc:
            return n == 0
        return n == 1

    def canon(self, place, depth=0):
        """canonical key of a place if it denotes an immutable value, else None"""
        local, proj = place[0], place[1]
        key_proj = []
        for p in proj:
            if p == "*":
                key_proj.append("*")
            elif isinstance(p, list) and p[0] == "f":
                key_proj.append(("f", p[1]))
            elif isinstance(p, list) and p[0] == "v":
                key_proj.append(("v", p[1]))
            else:
                return None
        if local in self._addr_taken:
            return None
        if not self._immutable(local):
            # a multiply-assigned local is tracked as its own root: its facts are set by aggregate
            # assignments and killed by every other definition (see run())
            if any(p == "*" for p in key_proj):
                return None
            return (local, tuple(key_proj))
        # follow copies / refs of whole places: _a = _b ; _a = &_b ; _a = copy (*_b)
        if depth < 12 and not (1 <= local <= self.fn.argc):
            d = self.du.single_def(local)
            if d is not None and d[2] == "assign":
                rv = d[3]
                src = None
                if rv[0] == "use" and rv[1][0] in ("c", "m"):
                    src = rv[1][1]
                    extra = []
                elif rv[0] == "ref":
                    src = rv[2]
                    extra = ["&"]
                if src is not None:
                    base = self.canon(src, depth + 1)
                    if base is not None:
                        bl, bp = base
                        proj2 = list(bp) + extra + key_proj
                        # cancel & followed by *
                        out = []
                        for e in proj2:
                            if e == "*" and out and out[-1] == "&":
                                out.pop()
                            else:
                                out.append(e)
                        return (bl, tuple(out))
        return (local, tuple(key_proj))

    # ---- what does a switch test?
    def switch_key(self, bb):
        """For a switch terminator: (key, mapping) where mapping(value) -> set of discriminant values the place
        may have on that edge, or None if the operand is not understood.  Returns (key, kind, extra)."""
        fn = self.fn
        t = fn.blocks[bb].term
        l = op_local(t[1])
        if l is None:
            # direct switch on a place (bool field)
            p = op_place(t[1])
            if p is None:
                return None
            k = self.canon(p)
            return (k, "bool", None) if k else None
        d = self.du.single_def(l)
        if d is None:
            return None
        neg = False
        hops = 0
        while d is not None and hops < 6:
            hops += 1
            if d[2] == "call":
                c = d[3]
                for name, tset in _TESTS.items():
                    if c.is_(name) and c.args:
                        p = op_place(c.args[0])
                        k = self.canon(p)
                        if k is None:
                            return None
                        # argument is a reference to the tested place: strip a trailing &
                        kl, kp = k
                        if kp and kp[-1] == "&":
                            kp = kp[:-1]
                        return ((kl, kp), "test", (tset, neg))
                return None
            rv = d[3]
            if rv[0] == "discr":
                k = self.canon(rv[1])
                return (k, "disc", None) if k else None
            if rv[0] == "un" and rv[1] == "Not":
                neg = not neg
                nl = op_local(rv[2])
                if nl is None:
                    p = op_place(rv[2])
                    k = self.canon(p) if p else None
                    return (k, "bool", neg) if k else None
                d = self.du.single_def(nl)
                continue
            if rv[0] == "use" and rv[1][0] in ("c", "m"):
                p = rv[1][1]
                if p[1]:
                    k = self.canon(p)
                    return (k, "bool", neg) if k else None
                d = self.du.single_def(p[0])
                continue
            return None
        return None

    def _domain(self, key, kind):
        if kind in ("bool", "test"):
            return {0, 1}
        # discriminant domain from the type of the place: Option/Result known, else workspace enum
        return None

    def edges(self, bb, preds):
        """feasible (successor, new_preds) pairs of block bb under predicate state `preds` (a dict)"""
        fn = self.fn
        t = fn.blocks[bb].term
        succ = self.cfg.succ[bb]
        if t[0] != "switch":
            return [(s, preds) for s in succ]
        sk = self._sk_cache.get(bb)
        if sk is None or sk[0] is None:
            return [(s, preds) for s in succ]
        key, kind, extra = sk
        if (("b" if kind == "bool" else "d"), key) not in self.relevant:
            return [(s, preds) for s in succ]
        targets = t[2]
        otherwise = t[3]
        listed = [v for v, _ in targets]
        out = []
        if kind == "disc":
            known = preds.get(("d", key))
            for v, tb in targets:
                if known is not None and v not in known:
                    continue
                np = dict(preds)
                np[("d", key)] = frozenset({v})
                out.append((tb, np))
            # otherwise edge
            if known is not None:
                rest = known - set(listed)
                if rest:
                    np = dict(preds)
                    np[("d", key)] = frozenset(rest)
                    out.append((otherwise, np))
            else:
                dom = self._disc_domain(key)
                np = dict(preds)
                if dom is not None:
                    rest = dom - set(listed)
                    if rest:
                        np[("d", key)] = frozenset(rest)
                        out.append((otherwise, np))
                else:
                    out.append((otherwise, np))
            return [(s, p) for s, p in out if not fn.blocks[s].cleanup]
        if kind == "test":
            tset, neg = extra
            known = preds.get(("d", key))
            dom = {0, 1}
            fset = dom - tset
            for v, tb in targets + [[None, otherwise]]:
                if v is None:
                    truth = None  # otherwise = any value not listed
                    vals = {0, 1} - set(listed)
                else:
                    vals = {v}
                for val in vals:
                    is_true = (val != 0) != neg
                    dset = tset if is_true else fset
                    if known is not None and not (known & dset):
                        continue
                    np = dict(preds)
                    np[("d", key)] = frozenset(dset if known is None else known & dset)
                    out.append((tb, np))
            return [(s, p) for s, p in out if not fn.blocks[s].cleanup]
        if kind == "bool":
            neg = bool(extra)
            known = preds.get(("b", key))
            for v, tb in targets + [[None, otherwise]]:
                vals = ({0, 1} - set(listed)) if v is None else {v}
                for val in vals:
                    actual = (val != 0) != neg
                    if known is not None and known != actual:
                        continue
                    np = dict(preds)
                    np[("b", key)] = actual
                    out.append((tb, np))
            return [(s, p) for s, p in out if not fn.blocks[s].cleanup]
        return [(s, preds) for s in succ]

    def _disc_domain(self, key):
        """set of discriminant values of the enum type of the place `key`, when known"""
        fn = self.fn
        local, proj = key
        c = fn.crate
        ty = fn.local_ty(local)
        t = c.types[ty]
        # walk the projection through the type table as far as the facts allow
        for p in proj:
            if p in ("*", "&"):
                if p == "*" and t["k"] in ("ref", "refmut", "ptr", "ptrmut"):
                    t = c.types[t["a"][0]]
                    continue
                if p == "&":
                    continue
                return None
            return None  # field / variant paths: unknown without ADT field types here
        while t["k"] in ("ref", "refmut"):
            t = c.types[t["a"][0]]
        if t["k"] != "adt":
            return None
        name = c.defs[t["d"]]
        if name.endswith("option::Option") or name.endswith("result::Result"):
            return {0, 1}
        a = c.facts.adts.get(name)
        if a and a["kind"] == "enum":
            return {v["discr"] for v in a["variants"]}
        return None

    # ---- exploration
    def run(self, init, transfer, at_exit, start_bb=0, init_preds=None, on_edge=None):
        """transfer(bb, state) -> state' or list of states (None = path dies);
        at_exit(ret_bb, state, path_pred) is called for each (return block, state) reached."""
        seen = set()
        work = [(start_bb, init, init_preds or {}, None)]
        parent = {}
        n = 0
        while work:
            bb, st, preds, par = work.pop()
            killed = self._defs_in_block.get(bb)
            if killed and preds:
                if any(k[1][0] in killed for k in preds):
                    preds = {k: v for k, v in preds.items() if k[1][0] not in killed}
            preds = self._stmt_facts(bb, preds)
            pkey = frozenset(preds.items())
            sig = (bb, st, pkey)
            if sig in seen:
                continue
            seen.add(sig)
            parent[sig] = par
            n += 1
            if n > self.max_states:
                self.truncated = True
                break
            if n % 20000 == 0:
                import resource
                if resource.getrusage(resource.RUSAGE_SELF).ru_maxrss > 8 * 1024 * 1024:      # kB: 8 GB
                    self.truncated = True
                    break
            res = transfer(bb, st)
            if res is None:
                continue
            outs = res if isinstance(res, list) else [res]
            for st2 in outs:
                if self.fn.blocks[bb].term[0] == "ret":
                    at_exit(bb, st2, lambda s=sig: self._path(parent, s))
                    continue
                for s, np in self.edges(bb, preds):
                    st3 = on_edge(bb, s, st2) if on_edge is not None else st2
                    work.append((s, st3, np, sig))
        return n

    def _stmt_facts(self, bb, preds):
        """strong updates for whole-local assignments of ADT aggregates / copies (tracked mutable locals)"""
        fn = self.fn
        blk = fn.blocks[bb]
        new = None
        for st in blk.stmts:
            if st[0] != "a" or st[1][1]:
                continue
            l = st[1][0]
            key = ("d", (l, ()))
            if key not in self.relevant:
                continue
            rv = st[2]
            val = None
            if rv[0] == "agg" and rv[1][0] == "adt":
                val = self._variant_discr(rv[1][1], rv[1][2])
            elif rv[0] == "use" and rv[1][0] in ("c", "m") and not rv[1][1][1]:
                src = ("d", (rv[1][1][0], ()))
                cur = new if new is not None else preds
                if src in cur:
                    val = cur[src]
            if new is None:
                new = dict(preds)
            if val is not None:
                new[key] = val if isinstance(val, frozenset) else frozenset({val})
            else:
                new.pop(key, None)
        return new if new is not None else preds

    def _variant_discr(self, adt_def_idx, variant):
        name = self.fn.crate.defs[adt_def_idx]
        if name.endswith("option::Option"):
            return {"None": 0, "Some": 1}.get(variant)
        if name.endswith("result::Result"):
            return {"Ok": 0, "Err": 1}.get(variant)
        a = self.fn.crate.facts.adts.get(name)
        if a:
            for v in a["variants"]:
                if v["name"] == variant:
                    return v["discr"]
        return None

    @staticmethod
    def _path(parent, sig):
        out = []
        while sig is not None:
            out.append(sig[0])
            sig = parent.get(sig)
        return list(reversed(out))
