"""Shared helpers for the rules: `?` sites, labels for core-lib closures, context object."""
from ..callgraph import CallGraph
from ..engine import Broken
from ..mir import Cfg, DefUse, op_base, op_const, op_local, op_place, place_fields


class Ctx:
    """Lazily computed, shared analysis state for one fact set."""

    def __init__(self, F):
        self.F = F
        self._cg = None
        self._cfg = {}
        self._du = {}
        self._labels = None

    @property
    def cg(self):
        if self._cg is None:
            self._cg = CallGraph(self.F)
        return self._cg

    def cfg(self, fn):
        c = self._cfg.get(fn.name)
        if c is None:
            c = self._cfg[fn.name] = Cfg(fn)
        return c

    def du(self, fn):
        d = self._du.get(fn.name)
        if d is None:
            d = self._du[fn.name] = DefUse(fn)
        return d

    def need_fn(self, qual):
        fn = self.F.fn(qual)
        if fn is None:
            raise Broken(f"anchor function {qual} not found (renamed or removed?)")
        if qual == "koto_runtime::KotoVm::execute_instructions":
            fn = self.loop_fn(fn)
        return fn

    def loop_fn(self, fn):
        """the function that holds the interpreter loop: `execute_instructions`, or -- when that has become a forwarder
        (`execute_instructions_with_timeout(timeout)`) -- the one private KotoVm method it hands over to"""
        disp = "koto_runtime::KotoVm::execute_instruction"
        for _ in range(2):
            if any(c.short == disp for c in fn.calls()):
                return fn
            cands = []
            for c in fn.calls():
                t = self.F.fns.get(c.resolved)
                if t is not None and t.qual.startswith("koto_runtime::KotoVm::") and t not in cands \
                        and any(c2.short == disp for c2 in t.calls()):
                    cands.append(t)
            if len(cands) != 1:
                return fn
            fn = cands[0]
        return fn

    # ---- stable labels for closures registered with add_fn("name", closure)
    def label(self, fn):
        if self._labels is None:
            self._labels = _closure_labels(self)
        return self._labels.get(fn.name, fn.qual)


def _closure_labels(cx):
    """closure def name -> 'crate::module::<registered name>' for closures passed to add_fn(.., "name", closure)"""
    F = cx.F
    labels = {}
    for fn in F.fns.values():
        if fn.kind == "Closure":
            continue
        du = None
        for c in fn.calls():
            nm = c.resolved or ""
            if not (nm.endswith("::add_fn") or nm.endswith("::add_instance_fn")):
                continue
            if not c.cl:
                continue
            # find a string constant among the args
            name = None
            if du is None:
                du = cx.du(fn)
            for a in c.args:
                k = op_const(a)
                if k is None:
                    l = op_local(a)
                    if l is not None:
                        r = du.root(l)
                        if r[0] == "const":
                            k = r[1]
                if k is not None and isinstance(k.get("d"), str) and k["d"].startswith('"'):
                    name = k["d"].strip('"')
                    break
            if name is None:
                continue
            for cl in c.cl:
                f2 = F.fns.get(cl)
                if f2 is not None and f2.kind == "Closure":
                    mod = fn.name.rsplit("::", 1)[0]
                    labels[cl] = f"{mod}::{name}"
    # nested closures inherit the label of their parent closure
    changed = True
    while changed:
        changed = False
        for fn in F.fns.values():
            if fn.kind == "Closure" and fn.name not in labels and fn.parent in labels:
                labels[fn.name] = labels[fn.parent] + fn.name[len(fn.parent):]
                changed = True
    return labels


class TrySite:
    __slots__ = ("producer", "branch_bb", "cont_bb", "break_bb", "operand_local")


def try_sites(cx, fn):
    """`?` sites of a function: the call producing the value, the continue and the break (error) blocks."""
    out = []
    du = cx.du(fn)
    for c in fn.calls():
        nm = c.callee or ""
        if not nm.endswith("ops::try_trait::Try::branch"):
            continue
        ts = TrySite()
        ts.branch_bb = c.bb
        ts.operand_local = op_base(c.args[0]) if c.args else None
        ts.producer = None
        if ts.operand_local is not None:
            r = du.root(ts.operand_local)
            if r[0] == "call":
                ts.producer = r[1]
        ts.cont_bb = ts.break_bb = None
        nxt = c.target
        # follow to the switch on the discriminant
        hops = 0
        while nxt is not None and hops < 4:
            t = fn.blocks[nxt].term
            if t[0] == "switch":
                for v, bb in t[2]:
                    if v == 0:
                        ts.cont_bb = bb
                    elif v == 1:
                        ts.break_bb = bb
                if ts.cont_bb is None:
                    ts.cont_bb = t[3]
                break
            s = fn.succs(nxt)
            nxt = s[0] if len(s) == 1 else None
            hops += 1
        out.append(ts)
    return out


def self_field_root(du, local):
    """If `local` is (a reference to) a field path of self (arg 1), return the field names, else None."""
    r = du.root(local, through_calls=("ops::deref::Deref::deref", "ops::deref::DerefMut::deref_mut"))
    if r[0] == "field" and r[1] == ("arg", 1):
        return r[2]
    return None


def calls_named(fn, *suffixes):
    return [c for c in fn.calls() if c.resolved and any(c.resolved.endswith(s) for s in suffixes)]


def where(fn, line):
    return f"{fn.file}:{line}"


def operand_agg(du, op):
    """If the operand is (a copy/move of a local whose single definition is) an ADT aggregate, return
    (adt_def_index, variant_name, operands) else None."""
    if op[0] == "k":
        return None
    l = op_local(op)
    if l is None:
        return None
    r = du.root(l)
    if r[0] == "rv" and r[1][0] == "agg" and r[1][1][0] == "adt":
        return (r[1][1][1], r[1][1][2], r[1][2])
    return None


def rv_variant(du, rv):
    """variant name of the ADT value an rvalue evaluates to (aggregate directly or through a temp)"""
    if rv[0] == "agg" and rv[1][0] == "adt":
        return rv[1][2]
    if rv[0] == "use":
        a = operand_agg(du, rv[1])
        if a:
            return a[1]
    return None


_ALWAYS_ERR = {}


def always_err(cx, fn):
    """does every return of fn assign an Err aggregate to _0 (error constructor helpers such as
    Compiler::error, unexpected_type, Parser::error)"""
    from ..mir import _block_ret_class
    key = (id(cx), fn.name)
    if key in _ALWAYS_ERR:
        return _ALWAYS_ERR[key]
    _ALWAYS_ERR[key] = False
    cfg = cx.cfg(fn)
    ok = True
    any_w = False
    for b in cfg.reach:
        cls = _block_ret_class(fn, b)
        if cls is None:
            continue
        any_w = True
        if cls == "err":
            continue
        if cls.startswith("call:"):
            t = cx.F.fns.get(cls[5:])
            if t is not None and t is not fn and always_err(cx, t):
                continue
        ok = False
    _ALWAYS_ERR[key] = ok and any_w
    return _ALWAYS_ERR[key]
