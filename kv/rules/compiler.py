"""Compiler bookkeeping rules: R-SPAN, R-JUMP-CHECKED, R-DET (C05, C12)."""
from ..engine import Broken, Finding, RuleResult, require
from ..mir import line_of, op_base, op_const, op_int, op_local, op_place, place_fields
from ..typestate import Explorer
from .common import always_err, self_field_root, try_sites

COMP = "koto_bytecode::Compiler::"


def compiler_methods(cx):
    return [f for f in cx.F.fns.values() if f.crate.uname == "koto_bytecode" and
            (f.qual.startswith(COMP) or (f.kind == "Closure" and f.qual.startswith(COMP)))]


def ret_class_of_block(cx, fn, bb):
    """class of the write to _0 in block bb: 'err' / 'ok' / None (no write)"""
    from ..mir import _block_ret_class
    cls = _block_ret_class(fn, bb)
    if cls is None:
        return None
    if cls == "err":
        return "err"
    if cls.startswith("call:"):
        nm = cls[5:]
        if "from_residual" in nm:
            return "err"
        t = cx.F.fns.get(nm)
        if t is not None and always_err(cx, t):
            return "err"
        return "ok"
    return "ok"


# ---------------------------------------------------------------------------------------------
# R-SPAN

def rule_span(cx, tier):
    r = RuleResult("R-SPAN", "the compiler's span stack is balanced: every non-error exit of every Compiler method "
                             "has as many pop_span as push_span, and no loop has a non-zero net effect")
    push = COMP + "push_span"
    pop = COMP + "pop_span"
    cx.need_fn(push)
    cx.need_fn(pop)
    insts = []
    for fn in compiler_methods(cx):
        if fn.qual in (push, pop):
            continue
        n_push = n_pop = n_other = 0
        for c in fn.calls():
            if c.short == push:
                n_push += 1
            elif c.short == pop:
                n_pop += 1
            elif c.is_("Vec::truncate", "Vec::push", "Vec::pop", "Vec::clear") and _is_span_stack(cx, fn, c):
                n_other += 1
        if n_push or n_pop or n_other:
            insts.append((fn, n_push, n_pop, n_other))
    total_push = sum(i[1] for i in insts)
    total_pop = sum(i[2] for i in insts)
    r.analysed = {"functions_with_span_ops": len(insts), "push_span_sites": total_push, "pop_span_sites": total_pop,
                  "raw_span_stack_ops": sum(i[3] for i in insts)}
    r.floor("functions using push_span", len([i for i in insts if i[1]]), 6)
    r.floor("push_span call sites", total_push, 7)
    for fn, n_push, n_pop, n_other in insts:
        r.instances += 1
        r.nontrivial += 1
        res = _span_balance(cx, fn, push, pop)
        verdict = "balanced"
        for kind, bb, path, count in res["bad"]:
            verdict = "violation"
            slot = "ok-exit" if kind == "exit" else "loop"
            msg = (f"a non-error return is reachable with span stack depth {count:+d} relative to entry"
                   if kind == "exit" else "span stack depth changes on every iteration of a loop")
            r.add(Finding("R-SPAN", fn.qual, slot, msg, fn.file, line_of(fn, bb),
                          [f"bb{b} {fn.file}:{line_of(fn, b)}" + (f" call {fn.call_at(b).short.rsplit('::', 1)[-1]}" if fn.call_at(b) is not None and fn.call_at(b).short in (push, pop) else "") for b in path][-40:]))
        if res["undecided"]:
            verdict = "undecided" if verdict == "balanced" else verdict
            r.undecided.append(f"{fn.qual}: {res['undecided']}")
        r.sample({"fn": fn.qual, "push": n_push, "pop": n_pop, "raw_ops": n_other, "states": res["states"],
                  "verdict": verdict, "at": fn.where()})
    return r


def _is_span_stack(cx, fn, call):
    if not call.args:
        return False
    l = op_base(call.args[0])
    if l is None:
        return False
    fs = place_fields(op_place(call.args[0]))
    rr = self_field_root(cx.du(fn), l) or []
    return "span_stack" in fs or "span_stack" in rr


def _span_balance(cx, fn, push, pop):
    ex = Explorer(cx, fn)
    du = cx.du(fn)
    bad = []
    undecided = []
    calls = {c.bb: c for c in fn.calls()}
    LIMIT = 6

    def transfer(bb, st):
        count, saved, rcls = st
        c = calls.get(bb)
        if c is not None:
            if c.short == push:
                count = count + 1 if count != "T" else "T"
            elif c.short == pop:
                count = count - 1 if count != "T" else "T"
            elif c.is_("Vec::len") and _is_span_stack(cx, fn, c):
                # one entry per destination local (a len() inside a loop is re-read every iteration), bounded in size
                saved = tuple(x for x in saved if x[0] != c.dest[0])[-7:] + ((c.dest[0], count),)
            elif c.is_("Vec::truncate") and _is_span_stack(cx, fn, c):
                l = op_local(c.args[1]) if len(c.args) > 1 else None
                hit = None
                if l is not None:
                    root = du.root(l)
                    if root[0] == "call":
                        for sl, sc in saved:
                            if sl == root[1].dest[0]:
                                hit = sc
                if hit is None:
                    undecided.append(f"span_stack.truncate at line {c.line} with an argument that is not a saved len()")
                    return None
                count = hit
            elif c.is_("Vec::push") and _is_span_stack(cx, fn, c):
                count = count + 1 if count != "T" else "T"
            elif c.is_("Vec::pop") and _is_span_stack(cx, fn, c):
                count = count - 1 if count != "T" else "T"
        cls = ret_class_of_block(cx, fn, bb)
        if cls is not None:
            rcls = cls
        if count != "T" and abs(count) > LIMIT:
            count = "T"   # saturate: only a truncate-to-saved can bring the depth back
        return (count, saved, rcls)

    def at_exit(bb, st, pathf):
        count, saved, rcls = st
        if rcls != "err" and count != 0:
            if count == "T":
                if not any(b[0] == "loop" for b in bad):
                    bad.append(("loop", bb, pathf(), 0))
            elif not any(b[0] == "exit" and b[3] == count for b in bad):
                bad.append(("exit", bb, pathf(), count))

    # `while self.span_stack.len() > saved { self.pop_span() }` is truncate-to-saved spelled as a loop: on the outcome of the
    # comparison on which the current length no longer exceeds the saved one, the depth is the saved depth
    restore_edges = {}
    for b in fn.blocks:
        if b.cleanup or b.term[0] != "switch":
            continue
        cl = op_base(b.term[1])
        d = du.single_def(cl) if cl is not None else None
        if d is None or d[2] != "assign" or d[3][0] != "bin" or d[3][1] not in ("Gt", "Lt", "Ge", "Le", "Ne", "Eq"):
            continue
        opn, a, b2 = d[3][1], d[3][2], d[3][3]
        ra = du.root(op_base(a)) if op_base(a) is not None else None
        rb = du.root(op_base(b2)) if op_base(b2) is not None else None

        def is_cur_len(rr):
            return rr is not None and rr[0] == "call" and rr[1].is_("Vec::len") and _is_span_stack(cx, fn, rr[1]) and \
                rr[1].bb == b.idx or (rr is not None and rr[0] == "call" and rr[1].is_("Vec::len")
                                      and _is_span_stack(cx, fn, rr[1]) and cx.cfg(fn).dominates(rr[1].bb, b.idx)
                                      and any(p == rr[1].bb or rr[1].target == b.idx for p in cx.cfg(fn).pred[b.idx]))
        cur_is_a = is_cur_len(ra)
        cur_is_b = is_cur_len(rb)
        if cur_is_a == cur_is_b:
            continue
        other = rb if cur_is_a else ra
        if other is None or other[0] != "call" or not other[1].is_("Vec::len") or not _is_span_stack(cx, fn, other[1]):
            continue
        saved_local = other[1].dest[0]
        # outcomes on which cur <= saved (with cur >= saved as the loop invariant: cur == saved)
        if cur_is_a:
            le_true = {"Gt": False, "Le": True, "Ne": False, "Eq": True}.get(opn)
        else:
            le_true = {"Lt": False, "Ge": True, "Ne": False, "Eq": True}.get(opn)
        if le_true is None:
            continue
        tg = set()
        for v, tb in b.term[2]:
            if (v != 0) == le_true:
                tg.add(tb)
        listed = {v for v, _ in b.term[2]}
        if (listed == {0} and le_true) or (listed == {1} and not le_true):
            tg.add(b.term[3])
        if tg:
            restore_edges[b.idx] = (saved_local, tg)

    def on_edge(bb, succ, st):
        re_ = restore_edges.get(bb)
        if re_ is not None and succ in re_[1]:
            count, saved, rcls = st
            for sl, sc in saved:
                if sl == re_[0]:
                    return (sc, saved, rcls)
        return st

    n = ex.run((0, (), None), transfer, at_exit, on_edge=on_edge)
    if ex.truncated:
        undecided.append("state space truncated")
    # de-duplicate loop reports
    seen = set()
    out = []
    for b in bad:
        k = (b[0], b[3] if b[0] == "exit" else 0)
        if k in seen:
            continue
        seen.add(k)
        out.append(b)
    return {"bad": out, "undecided": "; ".join(sorted(set(undecided))), "states": n}


# ---------------------------------------------------------------------------------------------
# R-JUMP-CHECKED

def rule_jump_checked(cx, tier):
    r = RuleResult("R-JUMP-CHECKED", "every u16 jump distance written into the bytecode comes from a checked "
                                     "conversion (u16::try_from), never from a truncating `as u16` cast")
    sinks = []
    for fn in cx.F.crate_fns("koto_bytecode"):
        if "compiler" not in fn.name:
            continue
        for c in fn.calls():
            if c.pretty and c.pretty.endswith("to_le_bytes") and c.args:
                aty = fn.crate.tstr(c.arg_ty(0))
                if aty == "u16":
                    sinks.append((fn, c))
    r.analysed = {"u16_to_le_bytes_sites": len(sinks)}
    r.floor("u16::to_le_bytes sites in the compiler", len(sinks), 1)
    for fn, c in sinks:
        r.instances += 1
        r.nontrivial += 1
        du = cx.du(fn)
        verdict = _u16_origin(cx, fn, du, c.args[0])
        if verdict[0] == "cast":
            r.add(Finding("R-JUMP-CHECKED", fn.qual, "as u16", f"jump distance is narrowed with `as u16` from "
                          f"{verdict[1]}: a distance ≥ 65536 bytes is silently truncated and the jump lands inside "
                          f"the wrong instruction instead of being reported as JumpOffsetIsTooLarge",
                          fn.file, c.line, [f"to_le_bytes at {fn.file}:{c.line}", f"cast from {verdict[1]}"]))
        elif verdict[0] == "unknown":
            r.undecided.append(f"{fn.qual}:{c.line} origin of u16 not understood: {verdict[1]}")
        r.sample({"fn": fn.qual, "line": c.line, "origin": verdict[0], "detail": verdict[1]})
    return r


def _u16_origin(cx, fn, du, op):
    k = op_const(op)
    if k is not None:
        return ("const", str(k.get("i")))
    l = op_base(op)
    seen = 0
    while l is not None and seen < 12:
        seen += 1
        if 1 <= l <= fn.argc:
            return ("param", f"parameter _{l}")
        d = du.single_def(l)
        if d is None:
            ds = du.full_defs(l)
            return ("unknown", f"{len(ds)} definitions")
        if d[2] == "call":
            c = d[3]
            if c.is_("TryFrom::try_from", "TryInto::try_into") or (c.pretty or "").endswith("try_from") or (c.pretty or "").endswith("try_into"):
                return ("checked", c.short)
            return ("unknown", "call " + c.short)
        rv = d[3]
        if rv[0] == "cast":
            if rv[1] == "IntToInt":
                frm = fn.crate.tstr(rv[4])
                if frm in ("u8", "bool"):
                    return ("widening", frm)
                if op_const(rv[2]) is not None:
                    return ("const", "cast of constant")
                return ("cast", frm)
            l = op_base(rv[2])
            continue
        if rv[0] == "use":
            if rv[1][0] == "k":
                return ("const", str(rv[1][1].get("i")))
            l = op_base(rv[1])
            continue
        if rv[0] == "agg" and len(rv[2]) == 1:
            # Ok(x) / Some(x) wrappers are transparent
            if rv[2][0][0] == "k":
                return ("const", str(rv[2][0][1].get("i")))
            l = op_base(rv[2][0])
            continue
        return ("unknown", rv[0])
    return ("unknown", "chain too long")


# ---------------------------------------------------------------------------------------------
# R-DET

UNORDERED_SRC = ("HashSet::iter", "HashSet::drain", "HashSet::into_iter", "HashMap::iter", "HashMap::iter_mut",
                 "HashMap::keys", "HashMap::values", "HashMap::values_mut", "HashMap::drain", "HashMap::into_keys",
                 "HashMap::into_values", "<HashSet as IntoIterator>::into_iter", "<&HashSet as IntoIterator>::into_iter",
                 "<HashMap as IntoIterator>::into_iter", "<&HashMap as IntoIterator>::into_iter",
                 "<&mut HashMap as IntoIterator>::into_iter", "HashSet::difference", "HashSet::union",
                 "HashSet::intersection", "HashSet::symmetric_difference")
ADAPTORS = ("Iterator::map", "Iterator::cloned", "Iterator::copied", "Iterator::filter", "Iterator::filter_map",
            "Iterator::chain", "Iterator::enumerate", "Iterator::take", "Iterator::skip", "Iterator::rev",
            "Iterator::peekable", "Iterator::by_ref", "Iterator::flat_map", "Iterator::zip", "Iterator::inspect",
            "IntoIterator::into_iter")
ORDER_INSENSITIVE = ("HashSet::insert", "HashSet::contains", "HashSet::remove", "HashMap::insert", "HashMap::get",
                     "HashMap::contains_key", "HashMap::remove", "BTreeSet::insert", "BTreeMap::insert",
                     "Iterator::any", "Iterator::all", "Iterator::count", "Iterator::sum", "Iterator::max",
                     "Iterator::min", "<HashSet as Extend>::extend", "<HashMap as Extend>::extend")
ORDERED_SINK = ("Vec::push", "SmallVec::push", "String::push", "String::push_str", "Vec::insert", "VecDeque::push_back",
                "VecDeque::push_front", "Vec::extend_from_slice", "<Vec as Extend>::extend",
                "<SmallVec as Extend>::extend", "<String as Extend>::extend")


def _is_random_hash(crate, ty_idx, depth=0):
    """is the type (through references) a HashSet/HashMap with RandomState"""
    t = crate.types[ty_idx]
    while t["k"] in ("ref", "refmut") and depth < 4:
        t = crate.types[t["a"][0]]
        depth += 1
    if t["k"] != "adt":
        return False
    name = crate.defs[t["d"]]
    if not (name.endswith("hash::set::HashSet") or name.endswith("hash::map::HashMap")):
        return False
    for a in t.get("a", []):
        at = crate.types[a]
        if at["k"] == "adt" and crate.defs[at["d"]].endswith("RandomState"):
            return True
    return False


def _container_kind(crate, ty_idx):
    t = crate.types[ty_idx]
    while t["k"] in ("ref", "refmut"):
        t = crate.types[t["a"][0]]
    if t["k"] != "adt":
        return "unknown"
    name = crate.defs[t["d"]]
    last = name.rsplit("::", 1)[-1]
    if last in ("Vec", "SmallVec", "String", "VecDeque", "Box", "LinkedList", "IndexMap", "IndexSet"):
        return "ordered"
    if last in ("HashSet", "HashMap", "BTreeSet", "BTreeMap", "BinaryHeap"):
        return "unordered"
    return "unknown"


def rule_det(cx, tier):
    r = RuleResult("R-DET", "no iteration order of a RandomState hash container flows into the AST or bytecode "
                            "(ordered containers) in lexer, parser or bytecode compiler")
    n_src = 0
    n_fn = 0
    for fn in cx.F.fns.values():
        if fn.crate.uname not in ("koto_lexer", "koto_parser", "koto_bytecode"):
            continue
        n_fn += 1
        crate = fn.crate
        du = cx.du(fn)
        cfg = None
        tainted = {}   # local -> source call
        # sources
        for c in fn.calls():
            src = False
            if c.is_(*UNORDERED_SRC) and c.args and _is_random_hash(crate, c.arg_ty(0)):
                src = True
            if src:
                tainted[c.dest[0]] = c
                n_src += 1
        # direct hand-over of a hash container as an IntoIterator argument
        direct = []
        for c in fn.calls():
            if c.is_("FromIterator::from_iter", "Iterator::collect") or c.short.endswith("::from_iter"):
                if c.args and _is_random_hash(crate, c.arg_ty(0)):
                    direct.append((c, 0))
                    n_src += 1
            elif c.short.endswith("::extend") and len(c.args) > 1 and _is_random_hash(crate, c.arg_ty(1)):
                direct.append((c, 1))
                n_src += 1
        if not tainted and not direct:
            continue
        # propagate through moves and adaptors (fixpoint)
        changed = True
        while changed:
            changed = False
            for b in fn.blocks:
                if b.cleanup:
                    continue
                for st in b.stmts:
                    if st[0] == "a" and not st[1][1] and st[2][0] in ("use", "ref"):
                        src = op_base(st[2][1]) if st[2][0] == "use" else st[2][2][0]
                        if src in tainted and st[1][0] not in tainted:
                            tainted[st[1][0]] = tainted[src]
                            changed = True
            for c in fn.calls():
                if c.is_(*ADAPTORS) and c.args:
                    a0 = op_base(c.args[0])
                    if a0 in tainted and c.dest[0] not in tainted:
                        tainted[c.dest[0]] = tainted[a0]
                        changed = True
        # sinks
        for c, argi in direct:
            r.instances += 1
            r.nontrivial += 1
            kind = _container_kind(crate, fn.local_ty(c.dest[0])) if argi == 0 else _container_kind(crate, c.arg_ty(0))
            _det_verdict(r, cx, fn, c, kind, "hash container handed over as an iterator")
        for c in fn.calls():
            if not c.args:
                continue
            a0 = op_base(c.args[0])
            a1 = op_base(c.args[1]) if len(c.args) > 1 else None
            if c.is_(*ADAPTORS) or c.is_(*UNORDERED_SRC):
                continue
            if (c.is_("FromIterator::from_iter", "Iterator::collect") or c.short.endswith("::from_iter")) and a0 in tainted:
                r.instances += 1
                r.nontrivial += 1
                kind = _container_kind(crate, fn.local_ty(c.dest[0]))
                _det_verdict(r, cx, fn, c, kind, f"iterator from {tainted[a0].short} at line {tainted[a0].line}")
            elif c.short.endswith("::extend") and a1 in tainted:
                r.instances += 1
                r.nontrivial += 1
                kind = _container_kind(crate, c.arg_ty(0))
                _det_verdict(r, cx, fn, c, kind, f"iterator from {tainted[a1].short} at line {tainted[a1].line}")
            elif c.is_("Iterator::next") and a0 in tainted:
                # a `for` loop (or manual next) over an unordered iterator: classify what the body does
                r.instances += 1
                r.nontrivial += 1
                if cfg is None:
                    cfg = cx.cfg(fn)
                body = _loop_body(cfg, c.bb)
                ordered = []
                unknown = []
                for c2 in fn.calls():
                    if c2.bb not in body or c2 is c:
                        continue
                    if c2.is_(*ORDERED_SINK):
                        ordered.append(c2)
                    elif c2.is_(*ORDER_INSENSITIVE) or c2.is_("Iterator::next", "Try::branch", "FromResidual::from_residual", "Option::is_some", "Option::is_none"):
                        continue
                    elif c2.short.startswith("koto_"):
                        unknown.append(c2)
                src = tainted[a0]
                if ordered:
                    r.add(Finding("R-DET", fn.qual, f"loop:{ordered[0].short}", f"loop over {src.short} (RandomState "
                                  f"order) feeds the ordered sink {ordered[0].short}", fn.file, ordered[0].line,
                                  [f"source {fn.file}:{src.line}", f"sink {fn.file}:{ordered[0].line}"]))
                elif unknown:
                    r.undecided.append(f"{fn.qual}: loop over {src.short} at line {src.line} calls {unknown[0].short}")
                r.sample({"fn": fn.qual, "source": src.short, "line": src.line, "consumer": "loop",
                          "ordered_sinks": len(ordered), "unknown_calls": len(unknown),
                          "verdict": "violation" if ordered else ("undecided" if unknown else "order-insensitive")})
    r.analysed = {"functions_scanned": n_fn, "unordered_sources": n_src}
    r.floor("iteration sources over RandomState containers in lexer/parser/bytecode", n_src, 3)
    return r


SORTS = ("slice::sort", "slice::sort_unstable", "slice::sort_by", "slice::sort_by_key", "slice::sort_unstable_by",
         "slice::sort_unstable_by_key", "slice::sort_by_cached_key")


def _sorted_before_use(cx, fn, c):
    """is the container produced by call `c` sorted before anything else reads it (order made canonical)"""
    d = c.dest[0]
    if c.dest[1]:
        return False
    du = cx.du(fn)
    cfg = cx.cfg(fn)
    for s in fn.calls():
        if not (s.is_(*SORTS) and s.args and cfg.dominates(c.bb, s.bb)):
            continue
        # receiver chain back to d
        chain = set()
        l = op_base(s.args[0])
        ok = False
        for _ in range(8):
            if l is None:
                break
            if l == d:
                ok = True
                break
            chain.add(l)
            dd = du.single_def(l)
            if dd is None:
                break
            if dd[2] == "call":
                if dd[3].is_("Deref::deref", "DerefMut::deref_mut") and dd[3].args:
                    l = op_base(dd[3].args[0])
                    continue
                break
            rv = dd[3]
            if rv[0] in ("ref", "rawptr"):
                l = rv[2][0]
            elif rv[0] == "use":
                l = op_base(rv[1])
            else:
                break
        if not ok:
            continue
        # every other use of d must come after the sort
        fine = True
        for b in fn.blocks:
            if b.cleanup or b.idx not in cfg.reach:
                continue
            uses_here = False
            for st in b.stmts:
                if st[0] != "a":
                    continue
                from ..mir import rv_places
                for pl in rv_places(st[2]):
                    if pl[0] == d and not (st[1][0] in chain and not st[1][1]):
                        uses_here = True
            t = b.term
            if t[0] == "call":
                for a in t[1]["args"]:
                    if op_base(a) == d:
                        uses_here = True
            elif t[0] == "drop":
                pass
            if uses_here and b.idx != c.bb and not (cfg.dominates(s.bb, b.idx) and b.idx != s.bb):
                fine = False
        if fine:
            return True
    return False


def _det_verdict(r, cx, fn, c, kind, what):
    if kind == "ordered" and _sorted_before_use(cx, fn, c):
        r.sample({"fn": fn.qual, "consumer": c.short, "line": c.line, "target_kind": kind,
                  "verdict": "order made canonical: sorted before any other use"})
        return
    if kind == "ordered":
        r.add(Finding("R-DET", fn.qual, c.short, f"{what} is collected into an ordered container by {c.short}: the "
                      f"element order depends on RandomState and differs from run to run, so compiling the same text "
                      f"twice can yield different code", fn.file, c.line, [f"{fn.file}:{c.line} {c.short}"]))
    elif kind == "unknown":
        r.undecided.append(f"{fn.qual}:{c.line} {c.short} into a container of unknown kind")
    r.sample({"fn": fn.qual, "consumer": c.short, "line": c.line, "target_kind": kind,
              "verdict": {"ordered": "violation", "unordered": "order-insensitive", "unknown": "undecided"}[kind]})


def _loop_body(cfg, bb):
    loops = [cfg.natural_loop(t, h) for (t, h) in cfg.back_edges()]
    loops = [l for l in loops if bb in l]
    if not loops:
        return {bb}
    return min(loops, key=len)


# ---------------------------------------------------------------------------------------------
# R-BUILDER-BAL (C05): sequence / string builders and catch points opened by emitted code are closed by it

BUILDERS = {
    "sequence": ({"SequenceStart"}, {"SequenceToList", "SequenceToTuple"}),
    "string": ({"StringStart"}, {"StringFinish"}),
}
TRY_OPEN, TRY_CLOSE = {"TryStart"}, {"TryEnd"}


def rule_builder_bal(cx, tier):
    r = RuleResult("R-BUILDER-BAL", "the code a Compiler method emits opens and closes the VM's builder stacks in pairs: on "
                                    "every non-error path through the method each emitted SequenceStart is followed by the "
                                    "emission of SequenceToList/SequenceToTuple and each StringStart by StringFinish (no "
                                    "finisher without its opener, no net effect per loop iteration), and a TryStart is "
                                    "followed by a TryEnd emission before the method returns")
    from .enc import Writer
    w = Writer(cx)
    emit = (COMP + "push_op", COMP + "push_op_without_span")
    n_sites = 0
    insts = []
    for fn in w.fns:
        if fn.qual in w.prim:
            continue
        ev = {}
        for c in fn.calls():
            if c.short not in emit or len(c.args) < 2:
                continue
            ops = w.op_variants(fn, c.args[1])
            if not ops:
                continue
            for name, (op_open, op_close) in BUILDERS.items():
                if ops <= op_open:
                    ev[c.bb] = (name, +1)
                elif ops <= op_close:
                    ev[c.bb] = (name, -1)
                elif ops & (op_open | op_close):
                    ev[c.bb] = (name, None)
            if ops <= TRY_OPEN:
                ev[c.bb] = ("try", +1)
            elif ops <= TRY_CLOSE:
                ev[c.bb] = ("try", -1)
        if ev and not any(e == ("try", +1) for e in ev.values()):
            # a method that only closes catch points (break / continue leaving try blocks that another method opened,
            # see R-TRY-EXIT) has nothing to balance within itself
            for bb in [b for b, e in ev.items() if e[0] == "try"]:
                del ev[bb]
        if ev:
            # the patch of the catch-entry placeholder that follows a TryStart splits the emitted code into the part
            # executed when the try block completes and the part executed when an error was caught
            du = cx.du(fn)
            for bb, e in list(ev.items()):
                if e != ("try", +1):
                    continue
                b = fn.call_at(bb).target
                ph = None
                for _ in range(6):
                    c2 = fn.call_at(b) if b is not None else None
                    if c2 is None:
                        break
                    if c2.short == COMP + "push_offset_placeholder":
                        ph = c2
                        break
                    b = c2.target
                if ph is None:
                    continue
                for c2 in fn.calls():
                    if c2.short == COMP + "update_offset_placeholder" and len(c2.args) > 1:
                        l = op_base(c2.args[1])
                        rr = du.root(l, through_calls=("Try::branch",)) if l is not None else None
                        if rr is not None and rr[0] == "call" and rr[1].bb == ph.bb:
                            ev[c2.bb] = ("try", 0)
            insts.append((fn, ev))
            n_sites += len(ev)
    r.analysed = {"functions_emitting_builder_ops": len(insts), "builder_op_sites": n_sites}
    r.floor("functions emitting builder / try ops", len(insts), 3)
    r.floor("builder / try op emission sites", n_sites, 8)
    for fn, ev in insts:
        r.instances += 1
        r.nontrivial += 1
        ex = Explorer(cx, fn)
        bad = []
        undecided = []
        LIMIT = 4

        def transfer(bb, st, ev=ev):
            seq, strn, tr, rcls = st
            e = ev.get(bb)
            if e is not None:
                name, d = e
                if d is None:
                    undecided.append(f"opcode at line {line_of(fn, bb)} may or may not be a {name} builder op")
                    return None
                if name == "sequence":
                    seq = seq + d if seq != "T" else "T"
                elif name == "string":
                    strn = strn + d if strn != "T" else "T"
                elif d > 0:
                    tr = "open"
                elif d < 0:
                    tr = {"open": "closed-normal", "catch-open": "closed", "closed-normal": "closed-normal",
                          "closed": "closed", "normal-unclosed": "normal-unclosed"}.get(tr, "stray")
                else:       # the catch entry
                    tr = "catch-open" if tr == "closed-normal" else ("normal-unclosed" if tr == "open" else tr)
            cls = ret_class_of_block(cx, fn, bb)
            if cls is not None:
                rcls = cls
            if seq != "T" and abs(seq) > LIMIT:
                seq = "T"
            if strn != "T" and abs(strn) > LIMIT:
                strn = "T"
            return (seq, strn, tr, rcls)

        def at_exit(bb, st, pathf):
            seq, strn, tr, rcls = st
            if rcls == "err":
                return
            for name, v in (("sequence", seq), ("string", strn)):
                if v != 0 and not any(b[0] == name and b[1] == v for b in bad):
                    bad.append((name, v, bb, pathf()))
            if tr in ("open", "stray", "normal-unclosed", "catch-open", "closed-normal") and \
                    not any(b[0] == "try" and b[1] == tr for b in bad):
                bad.append(("try", tr, bb, pathf()))

        n = ex.run((0, 0, None, None), transfer, at_exit)
        if ex.truncated:
            undecided.append("state space truncated")
        verdict = "balanced"
        for name, v, bb, path in bad:
            verdict = "violation"
            if name == "try":
                slot = "try:" + v
                msg = {"open": "a non-error return is reachable after emitting TryStart without emitting TryEnd",
                       "closed-normal": "the catch entry of the emitted TryStart is never patched",
                       "normal-unclosed": "no TryEnd is emitted between TryStart and the catch entry: the catch point stays "
                                          "registered after the try block has completed, so a later error jumps back into "
                                          "this catch block",
                       "catch-open": "no TryEnd is emitted after the catch entry: the catch point stays registered while "
                                     "the catch block runs",
                       "stray": "TryEnd is emitted on a path that has not emitted TryStart"}[v]
            elif v == "T":
                slot = f"{name}:loop"
                msg = f"the number of open {name} builders changes on every iteration of a loop"
            else:
                slot = f"{name}:{v:+d}"
                msg = (f"a non-error return is reachable with {v:+d} {name} builder(s) left open by the emitted code: the VM's "
                       f"builder stack is unbalanced (stale builder, or 'missing builder' fault)")
            r.add(Finding("R-BUILDER-BAL", fn.qual, slot, msg, fn.file, line_of(fn, bb),
                          [f"bb{b} {fn.file}:{line_of(fn, b)}" + (f" emits {ev[b][0]} {'open' if ev[b][1] and ev[b][1] > 0 else 'close'}" if b in ev else "") for b in path][-40:]))
        if undecided:
            verdict = "undecided" if verdict == "balanced" else verdict
            r.undecided.append(f"{fn.qual}: {'; '.join(sorted(set(undecided)))}")
        r.sample({"fn": fn.qual, "sites": {line_of(fn, b): f"{e[0]}{'+' if (e[1] or 0) > 0 else ('-' if e[1] else '|catch-entry')}" for b, e in ev.items()},
                  "states": n, "verdict": verdict})
    return r


# ---------------------------------------------------------------------------------------------
# R-FUNC-SKIP (C05): the body of a nested function is never executed inline

def rule_func_skip(cx, tier):
    r = RuleResult("R-FUNC-SKIP", "a nested function's frame (NewFrame .. Return, emitted by compile_frame) is always "
                                  "preceded by an instruction that makes the enclosing code skip it: on every path through "
                                  "compile_function to the compile_frame call a `Function` op (which carries the body's "
                                  "size) or a `Jump` is emitted, followed by the placeholder for the distance")
    from .enc import Writer
    w = Writer(cx)
    fn = cx.need_fn(COMP + "compile_function")
    cfg = cx.cfg(fn)
    frames = [c for c in fn.calls() if c.short == COMP + "compile_frame"]
    require(frames, "R-FUNC-SKIP: compile_function no longer calls compile_frame")
    skip_bbs = set()
    for c in fn.calls():
        if c.short in (COMP + "push_op", COMP + "push_op_without_span") and len(c.args) > 1:
            ops = w.op_variants(fn, c.args[1])
            if ops and ops <= {"Function", "Jump"}:
                # followed by a placeholder
                nxt = fn.call_at(c.target) if c.target is not None else None
                hops = 0
                while nxt is not None and hops < 4 and nxt.short != COMP + "push_offset_placeholder":
                    nxt = fn.call_at(nxt.target) if nxt.target is not None else None
                    hops += 1
                if nxt is not None and nxt.short == COMP + "push_offset_placeholder":
                    skip_bbs.add(c.bb)
    r.analysed = {"compile_frame_calls": len(frames), "skip_emission_sites": len(skip_bbs)}
    for c in frames:
        r.instances += 1
        r.nontrivial += 1
        p = cfg.find_path(0, lambda b: b == c.bb, avoid=skip_bbs, include_src_succs=False) if 0 not in skip_bbs else None
        r.sample({"fn": fn.qual, "compile_frame_line": c.line, "always_skipped": p is None})
        if p is not None:
            r.add(Finding("R-FUNC-SKIP", fn.qual, "inline-body",
                          "compile_frame can be reached without emitting a `Function` op or a `Jump` in front of the "
                          "function's body: a function literal whose value is unused (an expression statement) is compiled "
                          "inline, and its NewFrame / body / Return run as part of the enclosing function", fn.file, c.line,
                          [f"bb{b} {fn.file}:{line_of(fn, b)}" for b in p][-30:]))
    return r


# ---------------------------------------------------------------------------------------------
# R-FRAME-RETURN (C05): every compiled frame ends in a Return

def rule_frame_return(cx, tier):
    r = RuleResult("R-FRAME-RETURN", "compile_frame emits a final `Return` on every non-error path; the only paths that may "
                                     "skip it are those decided by the AST of the block's own last expression (an explicit "
                                     "`return`), never by mutable compiler state that nested nodes also update -- otherwise a "
                                     "function can end without a Return and execution runs into the enclosing code")
    from .enc import Writer
    from .narrow import Sym, leaves_of, _phi_names
    w = Writer(cx)
    fn = cx.need_fn(COMP + "compile_frame")
    cfg = cx.cfg(fn)
    blocks = [c for c in fn.calls() if c.short == COMP + "compile_block"]
    require(blocks, "R-FRAME-RETURN: compile_frame no longer calls compile_block")
    rets = set()
    for c in fn.calls():
        if c.short in (COMP + "push_op", COMP + "push_op_without_span") and len(c.args) > 1:
            if w.op_variants(fn, c.args[1]) == {"Return"}:
                rets.add(c.bb)
    require(rets, "R-FRAME-RETURN: no emission of Op::Return in compile_frame")
    err = w._error_blocks(fn)
    exits = set(cfg.exits)
    sym = Sym(cx, fn)
    r.analysed = {"return_emission_sites": len(rets)}
    for c in blocks:
        r.instances += 1
        r.nontrivial += 1
        p = cfg.find_path(c.bb, lambda b: b in exits, avoid=rets | err)
        verdict = "always emitted"
        if p is not None:
            # the decisions that skip the emission: switches on the path whose taken edge can no longer reach a Return
            # emission while another edge still can
            state, ast = set(), set()
            for i, b in enumerate(p[:-1]):
                t = fn.blocks[b].term
                if t[0] != "switch":
                    continue
                taken = p[i + 1]
                others = [s2 for s2 in cfg.succ[b] if s2 != taken]
                if cfg.reachable({taken}, err) & rets:
                    continue
                if not any(cfg.reachable({o}, err) & rets for o in others):
                    continue
                roots = _param_roots(cx, fn, op_base(t[1]))
                for rt in roots:
                    (state if rt == 1 else ast).add(fn.local_name(rt) or f"arg{rt}")
                if not roots:
                    state.add("a value that does not derive from the frame's parameters")
            state, ast = sorted(state), sorted(ast)
            verdict = "skipped by AST test" if ast and not state else "skipped by compiler state"
            if state or not ast:
                r.add(Finding("R-FRAME-RETURN", fn.qual, "skip:" + (",".join(state)[:80] or "unconditional"),
                              "compile_frame can finish a frame without emitting `Return`, decided by "
                              f"{', '.join(state) or 'nothing'}: state that nested nodes update too (a `return` nested in the "
                              "last expression), so a function like `|c| if c then return` ends without a Return and "
                              "execution continues in the enclosing code", fn.file, c.line,
                              [f"bb{b} {fn.file}:{line_of(fn, b)}" for b in p][-30:]))
        r.sample({"fn": fn.qual, "verdict": verdict})
    return r


def _param_roots(cx, fn, local, depth=0, seen=None):
    """parameters (by index) that a value derives from, through copies, casts, refs, aggregates and call arguments"""
    seen = set() if seen is None else seen
    out = set()
    if local is None or local in seen or depth > 14:
        return out
    seen.add(local)
    if 1 <= local <= fn.argc:
        return {local}
    from ..mir import rv_places
    for d in cx.du(fn).defs.get(local, []):
        if d[2] in ("assign", "partial"):
            for pl in rv_places(d[3]):
                out |= _param_roots(cx, fn, pl[0], depth + 1, seen)
        elif d[2] == "call":
            for a in d[3].args:
                l = op_base(a)
                if l is not None:
                    out |= _param_roots(cx, fn, l, depth + 1, seen)
            # values captured by closure arguments
            for cl in (d[3].cl or ()):
                pass
    return out


# ---------------------------------------------------------------------------------------------
# R-TRY-EXIT (C04): break / continue clear the catch points of the try blocks they leave

def rule_try_exit(cx, tier):
    r = RuleResult("R-TRY-EXIT", "a catch point registered by TryStart is removed only by a TryEnd instruction (or with its "
                                 "frame) -- the VM's catch_stack has no other pop -- so the jumps that leave a try block "
                                 "without running to its end, `break` and `continue`, are preceded by the emission of TryEnd "
                                 "for the try blocks entered inside the loop; otherwise the stale catch point catches a "
                                 "later, unrelated error")
    from .enc import Writer
    F = cx.F
    w = Writer(cx)
    # ---- VM protocol: who shrinks catch_stack
    ex = cx.need_fn("koto_runtime::KotoVm::execute_instruction")
    poppers = set()
    for fn in F.fns.values():
        if fn.crate.uname != "koto_runtime" or fn.derived:
            continue
        for c in fn.calls():
            if c.is_("Vec::pop", "Vec::truncate", "Vec::clear", "Vec::drain", "Vec::remove", "Vec::swap_remove") and c.args:
                pl = op_place(c.args[0])
                l = op_base(c.args[0])
                names = set(place_fields(pl)) if pl is not None else set()
                d = cx.du(fn).single_def(l) if l is not None else None
                if d is not None and d[2] == "assign" and d[3][0] in ("ref", "rawptr"):
                    names |= set(place_fields(d[3][2]))
                if "catch_stack" in names:
                    poppers.add(fn.qual)
    r.instances += 1
    r.nontrivial += 1
    require(poppers, "R-TRY-EXIT: no function pops KotoVm's catch_stack (catch point protocol changed: re-read the rule)")
    if poppers != {ex.qual}:
        r.undecided.append(f"catch_stack is shrunk by {sorted(poppers)}: the catch point protocol is no longer "
                           f"'TryEnd or frame exit only'; the compiler clause below may not be necessary any more")
    # ---- compiler: emitters of TryEnd
    emitters = set()
    for fn in w.fns:
        for c in fn.calls():
            if c.short in (COMP + "push_op", COMP + "push_op_without_span") and len(c.args) > 1:
                if w.op_variants(fn, c.args[1]) == {"TryEnd"}:
                    emitters.add(fn.qual)
    require(emitters, "R-TRY-EXIT: no emission of Op::TryEnd in the compiler")
    cn = cx.need_fn(COMP + "compile_node")
    cfg = cx.cfg(cn)
    sites = []
    for c in cn.calls():
        if c.short == COMP + "push_loop_jump_placeholder":
            sites.append(("break", c))
        elif c.short == COMP + "push_jump_back_op":
            sites.append(("continue", c))
    r.analysed = {"catch_stack_poppers": sorted(poppers), "TryEnd_emitters": sorted(x.rsplit("::", 1)[-1] for x in emitters),
                  "loop_exit_jump_sites_in_compile_node": len(sites)}
    r.floor("loop exit jump emissions in compile_node (break, continue)", len(sites), 2)
    # the arm: region dominated by the target of the node-kind switch that dominates the site
    for kind, c in sites:
        r.instances += 1
        r.nontrivial += 1
        ok = False
        for c2 in cn.calls():
            if c2.bb == c.bb or not cfg.dominates(c2.bb, c.bb):
                continue
            direct = c2.short in (COMP + "push_op", COMP + "push_op_without_span") and len(c2.args) > 1 and \
                w.op_variants(cn, c2.args[1]) == {"TryEnd"}
            if direct or (c2.short in emitters and c2.short != COMP + "compile_node"):
                # inside the same arm: not a call that also dominates the other arms' sites
                others = [o for k2, o in sites if o.bb != c.bb and k2 != kind]
                if any(cfg.dominates(c2.bb, o.bb) for o in others):
                    continue
                ok = True
        r.sample({"statement": kind, "line": c.line, "TryEnd_emitted_before_jump": ok})
        if not ok:
            r.add(Finding("R-TRY-EXIT", cn.qual, kind,
                          f"the jump emitted for `{kind}` is not preceded by the emission of TryEnd for the try blocks it "
                          f"leaves: after `{kind}` inside a `try` in a loop the catch point stays registered, and a later "
                          f"error in the same function is caught by a try block that has already been left", cn.file, c.line))
    return r


# ---------------------------------------------------------------------------------------------
# R-FORCE-EXPORT
def _force_pruned(cx, fn, prune_params=True):
    """successor lists of fn's CFG under the hypothesis 'top-level exporting is forced and nothing asked for an export
    explicitly': tests of the result of force_export_assignment() take the true edge, tests of fn's own bool parameters
    take the false edge"""
    from .narrow import _switch_outcomes
    cfg = cx.cfg(fn)
    du = cx.du(fn)
    removed = set()
    for b in fn.blocks:
        so = _switch_outcomes(cx, fn, b)
        for (l, te, fe) in so or []:
            if prune_params and 1 <= l <= fn.argc and fn.local_tstr(l) == "bool":
                removed |= {(b.idx, t) for t in te - fe}
            d = du.single_def(l)
            if d is not None and d[2] == "call" and d[3].short == COMP + "force_export_assignment":
                removed |= {(b.idx, t) for t in fe - te}
    succ = [[t for t in ss if (i, t) not in removed] for i, ss in enumerate(cfg.succ)]
    return succ


def _reach(succ, starts, avoid=frozenset()):
    seen = set()
    work = [s for s in starts if s not in avoid]
    while work:
        b = work.pop()
        if b in seen:
            continue
        seen.add(b)
        work.extend(t for t in succ[b] if t not in seen and t not in avoid)
    return seen


def _forced_value(cx, fn, op, at_bb, depth=0, seen=None):
    """value of a bool operand at block at_bb under the forcing hypothesis: 'true' / 'false' / ('param', n) / 'unknown'
    (a set of these over the reaching definitions)"""
    seen = seen if seen is not None else set()
    c = op_const(op)
    if c is not None:
        v = op_int(op)
        if v is None and isinstance(c, dict):
            v = c.get("b")
        if v in (1, True):
            return {"true"}
        if v in (0, False):
            return {"false"}
        return {"unknown"}
    pl = op_place(op)
    if pl is None or pl[1]:
        return {"unknown"}
    l = pl[0]
    if 1 <= l <= fn.argc:
        return {("param", l)}
    if (l, at_bb) in seen or depth > 8:
        return {"unknown"}
    seen.add((l, at_bb))
    du = cx.du(fn)
    succ = _force_pruned(cx, fn)
    live = _reach(succ, {0})
    defs = du.defs.get(l, [])
    def_bbs = {d[0] for d in defs}
    out = set()
    for d in defs:
        if d[0] not in live:
            continue
        # does this definition reach at_bb without being overwritten
        others = def_bbs - {d[0]}
        if d[0] != at_bb and at_bb not in _reach(succ, set(succ[d[0]]), avoid=others - {at_bb}):
            continue
        if d[2] == "call":
            out |= {"true"} if d[3].short == COMP + "force_export_assignment" else {"unknown"}
        elif d[2] == "assign":
            rv = d[3]
            if rv[0] == "use":
                out |= _forced_value(cx, fn, rv[1], d[0], depth + 1, seen)
            else:
                out.add("unknown")
        else:
            out.add("unknown")
    return out or {"unknown"}


def rule_force_export(cx, tier):
    """R-FORCE-EXPORT: with top-level exporting forced, the export of an assigned id does not hinge on the explicit flag."""
    r = RuleResult("R-FORCE-EXPORT",
                   "every site where the compiler exports an assigned / imported / loop-bound id "
                   "(`compile_value_export`) is reached whenever `force_export_assignment()` holds, whatever the explicit "
                   "`export` flag says: the site stays reachable when the function's own bool parameters are false and the "
                   "force test is true, or -- when it hinges on a parameter -- every caller passes a value that is true "
                   "under that hypothesis (followed through pass-through parameters)")
    EXPORT = COMP + "compile_value_export"
    fns = {f.qual: f for f in compiler_methods(cx)}
    require(COMP + "force_export_assignment" in fns, "R-FORCE-EXPORT: Compiler::force_export_assignment not found")
    sites = [(f, c) for f in fns.values() for c in f.calls() if c.short == EXPORT]
    r.floor("compile_value_export call sites", len(sites), 5)

    def gating_params(fn, bb):
        """bool parameters whose false outcome cuts bb off (under force = true)"""
        from .narrow import _switch_outcomes
        out = []
        for p in range(1, fn.argc + 1):
            if fn.local_tstr(p) != "bool":
                continue
            out.append(p)
        return out

    def callers_ok(fn, p, depth, trail):
        """every call of fn passes a forced-true value for parameter local p"""
        bad, unknown, n = [], [], 0
        for g in fns.values():
            for c in g.calls():
                if c.short != fn.qual or len(c.args) < p:
                    continue
                n += 1
                vals = _forced_value(cx, g, c.args[p - 1], c.bb)
                for v in vals:
                    if v == "true":
                        continue
                    if v == "false":
                        bad.append((g, c, "passes `false` when only the forced export applies"))
                    elif v == "unknown":
                        unknown.append((g, c))
                    elif isinstance(v, tuple):
                        if depth >= 4 or (g.qual, v[1]) in trail:
                            unknown.append((g, c))
                            continue
                        b2, u2, n2 = callers_ok(g, v[1], depth + 1, trail | {(g.qual, v[1])})
                        if n2 == 0:
                            unknown.append((g, c))
                        bad.extend((g, c, f"passes its own flag on, and {why} (in {gg.qual.rsplit('::', 1)[-1]})")
                                   for (gg, cc, why) in b2)
                        unknown.extend(u2)
        return bad, unknown, n

    for fn, c in sites:
        r.instances += 1
        r.nontrivial += 1
        succ = _force_pruned(cx, fn)
        name = fn.qual.rsplit("::", 1)[-1]
        if c.bb in _reach(succ, {0}):
            r.sample({"fn": name, "line": line_of(fn, c.bb), "verdict": "reached under force with every flag false"})
            continue
        # which parameter does it hinge on: the site is reachable once that parameter's tests are unpruned
        hinge = []
        for p in gating_params(fn, c.bb):
            from .narrow import _switch_outcomes
            cfg = cx.cfg(fn)
            removed = set()
            for b in fn.blocks:
                for (l, te, fe) in _switch_outcomes(cx, fn, b) or []:
                    if l == p:
                        removed |= {(b.idx, t) for t in te - fe}
            # restore p's edges
            succ_p = [list(ss) for ss in succ]
            for (a, t) in removed:
                if t in cfg.succ[a] and t not in succ_p[a]:
                    succ_p[a].append(t)
            if c.bb in _reach(succ_p, {0}):
                hinge.append(p)
        if not hinge:
            r.undecided.append({"fn": name, "line": line_of(fn, c.bb),
                                "why": "not reachable under the forcing hypothesis and not through one flag"})
            continue
        all_bad, all_unknown = [], []
        for p in hinge:
            bad, unknown, n = callers_ok(fn, p, 0, frozenset({(fn.qual, p)}))
            all_bad += bad
            all_unknown += unknown
            if n == 0:
                all_unknown.append((fn, c))
        if all_bad:
            for (g, cc, why) in all_bad:
                gname = g.qual.rsplit("::", 1)[-1]
                r.add(Finding("R-FORCE-EXPORT", fn.qual, f"export-hinges-on-flag:caller={gname}",
                              f"the export in {name} is emitted only when its `{fn.local_name(hinge[0])}` parameter is "
                              f"true, and {gname} {why}: with export_top_level_ids the ids bound through this call are "
                              f"not exported", g.file, cc.line))
        elif all_unknown:
            r.undecided.append({"fn": name, "line": line_of(fn, c.bb), "why": "a caller's flag value is not decided",
                                "callers": sorted({g.qual.rsplit("::", 1)[-1] for g, _ in all_unknown})})
        else:
            r.sample({"fn": name, "line": line_of(fn, c.bb), "verdict": "every caller passes a forced-true flag"})
    r.analysed = {"export_sites": len(sites), "functions": sorted({f.qual.rsplit('::', 1)[-1] for f, _ in sites})}
    return r


# ---------------------------------------------------------------------------------------------
# R-CATCH-LAST (C04): a conditional last catch block rethrows what it does not accept

def rule_catch_last(cx, tier):
    r = RuleResult("R-CATCH-LAST",
                   "a catch argument that may not match (a type hint: `compile_check_type`; a map pattern: "
                   "`try_unpack_map`) files a jump for the mismatch. In `compile_try_expression` every such filing either "
                   "lies on the `!is_last_catch` outcome (a conditional last catch is refused), or the catch loop emits a "
                   "`Throw` that is reachable from it: after the last catch block nothing else would look at the error, "
                   "so a mismatch that merely falls through swallows the error")
    from .enc import Writer
    from .narrow import _switch_outcomes
    fn = cx.need_fn(COMP + "compile_try_expression")
    cfg = cx.cfg(fn)
    du = cx.du(fn)
    w = Writer(cx)
    filings = [c for c in fn.calls() if c.short in (COMP + "compile_check_type", COMP + "try_unpack_map")]
    r.floor("mismatch-jump filings in compile_try_expression", len(filings), 3)
    throws = [c for c in fn.calls() if c.short in (COMP + "push_op", COMP + "push_op_without_span") and len(c.args) > 1
              and w.op_variants(fn, c.args[1]) == {"Throw"}]
    loops = [cfg.natural_loop(t, h) for (t, h) in cfg.back_edges()]
    # tests of `is_last_catch`
    last_tests = []
    for b in fn.blocks:
        for (l, te, fe) in _switch_outcomes(cx, fn, b) or []:
            if fn.local_name(l) == "is_last_catch":
                last_tests.append((b.idx, te, fe))
    require(last_tests, "R-CATCH-LAST: no test of `is_last_catch` found in compile_try_expression")
    for c in filings:
        r.instances += 1
        r.nontrivial += 1
        not_last = any(any((e == c.bb or cfg.dominates(e, c.bb)) and set(cfg.pred[e]) <= {sb} for e in fe)
                       for (sb, te, fe) in last_tests)
        loop = max((l for l in loops if c.bb in l), key=len, default=set())
        rethrown = any(t.bb in loop and t.bb in cfg.reachable_after(c.bb) for t in throws)
        name = c.short[len(COMP):]
        r.sample({"filing": name, "line": c.line, "only_when_not_last": not_last, "rethrow_in_loop": rethrown})
        if not (not_last or rethrown):
            r.add(Finding("R-CATCH-LAST", fn.qual, f"{name}:last-catch-falls-through",
                          f"{name} files mismatch jumps for a catch argument also when the catch block is the last one, and "
                          f"no `Throw` follows in the catch loop: a value the last catch does not accept is dropped, the "
                          f"try expression yields null and no enclosing `try` sees the error", fn.file, c.line))
    r.analysed = {"filings": len(filings), "throw_emissions": len(throws)}
    return r
