"""Data interchange rules: R-SERDE-KINDS, R-SERDE-ENC, R-PARSE-ERR (C20)."""
import re
from ..engine import Broken, Finding, RuleResult, require
from ..mir import line_of, op_base, op_local, op_place, place_fields, place_variant

KVALUE = "koto_runtime::types::value::KValue"
NORMAL_FORM = {"List": "Tuple"}   # documented: sequences come back as tuples
WRITER_TO_VISIT = {"serialize_unit": "visit_unit", "serialize_bool": "visit_bool", "serialize_i64": "visit_i64",
                   "serialize_f64": "visit_f64", "serialize_str": "visit_str", "serialize_seq": "visit_seq",
                   "serialize_map": "visit_map", "serialize_u64": "visit_u64", "serialize_none": "visit_none",
                   "serialize_some": "visit_some", "serialize_bytes": "visit_bytes", "serialize_i32": "visit_i32",
                   "serialize_f32": "visit_f32", "serialize_char": "visit_char"}


def kvalue_kinds_built(cx, fn, depth=1):
    """KValue variants a function constructs: direct aggregates and From/Into conversions (classified by source type)"""
    kinds = set()
    fns = [fn] + cx.F.closures_of(fn)
    for f in fns:
        c = f.crate
        for b in f.blocks:
            if b.cleanup:
                continue
            for st in b.stmts:
                if st[0] == "a" and st[2][0] == "agg" and st[2][1][0] == "adt" and c.defs[st[2][1][1]] == KVALUE:
                    kinds.add(st[2][1][2])
        for call in f.calls():
            if call.dest[1]:
                continue
            dt = c.types[f.local_ty(call.dest[0])]
            if not (dt["k"] == "adt" and c.defs[dt["d"]] == KVALUE):
                continue
            if call.is_("From::from", "Into::into") and call.args:
                src = c.tstr(call.arg_ty(0))
                kinds.add(_kind_of_source(src))
    kinds.discard(None)
    return kinds


def kvalue_kinds_returned(cx, fn, depth=3):
    """KValue variants a function can return in Ok(..) (or directly): follows the value assigned to _0 back through
    Ok wrappers, copies, From/Into conversions and tail calls into workspace functions"""
    du = cx.du(fn)
    c = fn.crate
    kinds = set()
    seen = set()

    def from_local(l, hops=0):
        if l is None or hops > 10 or (l, hops > 0) in seen:
            return
        seen.add((l, hops > 0))
        for d in du.defs.get(l, []):
            if d[2] == "call":
                call = d[3]
                if call.is_("From::from", "Into::into") and call.args:
                    dt = c.types[fn.local_ty(call.dest[0])]
                    if dt["k"] == "adt" and c.defs[dt["d"]] == KVALUE:
                        kinds.add(_kind_of_source(c.tstr(call.arg_ty(0))))
                        continue
                if call.is_("Try::branch") and call.args:
                    from_local(op_base(call.args[0]), hops + 1)
                    continue
                t = cx.F.fns.get(call.resolved)
                if t is not None and depth > 0 and t is not fn:
                    kinds.update(kvalue_kinds_returned(cx, t, depth - 1))
                continue
            if d[2] not in ("assign",):
                continue
            rv = d[3]
            if rv[0] == "agg" and rv[1][0] == "adt":
                name = c.defs[rv[1][1]]
                if name == KVALUE:
                    kinds.add(rv[1][2])
                elif rv[1][2] in ("Ok", "Some"):
                    for o in rv[2]:
                        from_local(op_base(o), hops + 1)
            elif rv[0] == "use":
                from_local(op_base(rv[1]), hops + 1)
    from_local(0)
    kinds.discard(None)
    return kinds


def _kind_of_source(src):
    s = src.replace("&", "").strip()
    if s in ("bool",):
        return "Bool"
    if s in ("i8", "i16", "i32", "i64", "i128", "u8", "u16", "u32", "u64", "u128", "f32", "f64", "isize", "usize") or "KNumber" in s:
        return "Number"
    if s in ("str", "std::string::String") or "KString" in s or s == "char":
        return "Str"
    if "KTuple" in s or s.startswith("std::vec::Vec<") or "[types::value::KValue]" in s or "[koto_runtime::KValue]" in s:
        return "Tuple"
    if "KMap" in s or "ValueMap" in s:
        return "Map"
    if "KList" in s:
        return "List"
    return "?" + s[:30]


def _variant_regions(cx, fn, adt_name):
    """{variant name: set of blocks} for the first switch on the discriminant of a value of enum `adt_name`"""
    cfg = cx.cfg(fn)
    du = cx.du(fn)
    a = cx.F.adts.get(adt_name)
    if a is None:
        return None
    by_discr = {v["discr"]: v["name"] for v in a["variants"]}
    best = None
    for b in fn.blocks:
        if b.cleanup or b.term[0] != "switch":
            continue
        l = op_base(b.term[1])
        d = du.single_def(l) if l is not None else None
        if d is None or d[2] != "assign" or d[3][0] != "discr":
            continue
        pl = d[3][1]
        ty = pl[2] if len(pl) > 2 else fn.local_ty(pl[0])
        if fn.crate.tdef(ty) != adt_name:
            continue
        depth = len(cfg.dominators().get(b.idx, ()))
        if best is None or depth < best[0]:
            best = (depth, b)
    if best is None:
        return None
    b = best[1]
    regions = {}
    for v, tb in b.term[2]:
        name = by_discr.get(v)
        if name is None:
            continue
        regions[name] = {x for x in cfg.reachable({tb}) if cfg.dominates(tb, x)}
    regions["*"] = {x for x in cfg.reachable({b.term[3]}) if cfg.dominates(b.term[3], x)} if b.term[3] not in [tb for _, tb in b.term[2]] else set()
    return regions


def rule_serde_kinds(cx, tier):
    r = RuleResult("R-SERDE-KINDS", "Koto value <-> serde data model: for every KValue kind, the serde method the writer "
                                    "(Serialize for SerializableKValue) calls has a non-default visit_* counterpart in "
                                    "KValueVisitor that builds the same kind (List -> Tuple as documented); the writer "
                                    "applies no numeric conversion; the visitor's wide integers convert with try_from")
    ser = None
    for f in cx.F.fns.values():
        if f.crate.uname == "koto_serde" and f.impl_self and "SerializableKValue" in f.impl_self and f.method == "serialize":
            ser = f
    require(ser is not None, "R-SERDE-KINDS: Serialize for SerializableKValue not found")
    # reader: KValueVisitor's visit_* methods
    visitor = {}
    for f in cx.F.fns.values():
        if f.crate.uname == "koto_serde" and f.impl_self and "KValueVisitor" in f.impl_self and f.method.startswith("visit_"):
            visitor[f.method] = f
    require(len(visitor) >= 8, f"R-SERDE-KINDS: only {len(visitor)} visit_* methods found on KValueVisitor")
    regions = _variant_regions(cx, ser, KVALUE)
    require(regions is not None, "R-SERDE-KINDS: the match over KValue in serialize was not found")
    table = {}
    for c in ser.calls():
        nm = (c.callee or "").rsplit("::", 1)[-1]
        if nm.startswith("serialize_") and "ser::Serializer" in (c.callee or ""):
            for v, blocks in regions.items():
                if c.bb in blocks:
                    table.setdefault(v, set()).add(nm)
    r.analysed = {"writer_table": {k: sorted(v) for k, v in sorted(table.items())}, "visitor_methods": sorted(visitor)}
    require(len(table) >= 6, "R-SERDE-KINDS: writer kind table has fewer than 6 entries")
    for variant, methods in sorted(table.items()):
        if variant == "*" or variant == "Object":
            continue
        want = NORMAL_FORM.get(variant, variant)
        for m in sorted(methods):
            r.instances += 1
            r.nontrivial += 1
            vm = WRITER_TO_VISIT.get(m)
            vf = visitor.get(vm) if vm else None
            if vf is None:
                r.add(Finding("R-SERDE-KINDS", ser.qual, f"{variant}:{m}", f"KValue::{variant} is written with {m} but "
                              f"KValueVisitor has no {vm or 'matching visit_*'}: the value cannot be read back",
                              ser.file, ser.line))
                continue
            built = kvalue_kinds_built(cx, vf)
            ok = want in built
            if not ok:
                r.add(Finding("R-SERDE-KINDS", vf.qual, f"{variant}:{m}", f"KValue::{variant} is written with {m}, but "
                              f"{vm} builds {sorted(built)} instead of {want}: the round trip changes the value's kind",
                              vf.file, vf.line))
            r.sample({"kind": variant, "writer": m, "reader": vm, "reader_builds": sorted(built), "ok": ok}, limit=12)
    # number representation: one serde number method per representation, no conversion in the writer
    r.instances += 1
    r.nontrivial += 1
    nm = table.get("Number", set())
    if nm != {"serialize_i64", "serialize_f64"}:
        r.add(Finding("R-SERDE-KINDS", ser.qual, "Number:methods", f"numbers are written with {sorted(nm)} (expected "
                      f"exactly serialize_i64 for integers and serialize_f64 for floats)", ser.file, ser.line))
    casts = []
    for f in [ser] + cx.F.closures_of(ser):
        for b in f.blocks:
            if b.cleanup:
                continue
            for st in b.stmts:
                if st[0] == "a" and st[2][0] == "cast" and st[2][1] in ("FloatToInt", "IntToFloat"):
                    from ..facts import loc_line
                    casts.append((st[2][1], loc_line(st[3])))
    r.instances += 1
    r.nontrivial += 1
    if casts:
        r.add(Finding("R-SERDE-KINDS", ser.qual, "Number:cast", f"the writer converts between float and integer "
                      f"({casts[0][0]}): a number's representation (and for large magnitudes its value) changes on the way "
                      f"out", ser.file, casts[0][1]))
    # wide integers in the visitor
    for m in ("visit_u64", "visit_i128", "visit_u128"):
        vf = visitor.get(m)
        if vf is None:
            continue
        r.instances += 1
        r.nontrivial += 1
        narrowing = False
        for b in vf.blocks:
            if b.cleanup:
                continue
            for st in b.stmts:
                if st[0] == "a" and st[2][0] == "cast" and st[2][1] == "IntToInt":
                    frm = vf.crate.tstr(st[2][4])
                    to = vf.crate.tstr(st[2][3])
                    if frm in ("u64", "i128", "u128") and to in ("i64", "i32", "u32"):
                        narrowing = True
        checked = any((c.pretty or "").endswith("try_from") or (c.pretty or "").endswith("try_into") for c in vf.calls())
        if narrowing or not checked:
            r.add(Finding("R-SERDE-KINDS", vf.qual, "narrow", f"{m} narrows its argument "
                          f"{'with `as`' if narrowing else 'without a checked conversion'}: out-of-range input is silently "
                          f"wrapped instead of being reported as an error", vf.file, vf.line))
        r.sample({"visitor": m, "checked_conversion": checked, "narrowing_cast": narrowing})
    return r


# serde kind -> (serializer fns whose result kind counts, deserializer fn that must accept it)
ENC_TABLE = [
    ("bool", ["Serializer::serialize_bool"], "deserialize_bool"),
    ("char", ["Serializer::serialize_char"], "deserialize_char"),
    ("str", ["Serializer::serialize_str"], "deserialize_str"),
    ("string", ["Serializer::serialize_str"], "deserialize_string"),
    ("none", ["Serializer::serialize_none"], "deserialize_option"),
    ("unit", ["Serializer::serialize_unit"], "deserialize_unit"),
    ("seq", ["<SerializeTuple as SerializeSeq>::end"], "deserialize_seq"),
    ("tuple", ["<SerializeTuple as SerializeTuple>::end"], "deserialize_tuple"),
    ("tuple_struct", ["<SerializeTuple as SerializeTupleStruct>::end"], "deserialize_tuple_struct"),
    ("map", ["<SerializeMap as SerializeMap>::end"], "deserialize_map"),
    ("struct", ["<SerializeMap as SerializeStruct>::end"], "deserialize_struct"),
    ("unit_variant", ["Serializer::serialize_unit_variant"], "deserialize_enum"),
    ("newtype_variant", ["Serializer::serialize_newtype_variant"], "deserialize_enum"),
    ("tuple_variant", ["<SerializeTupleVariant as SerializeTupleVariant>::end"], "deserialize_enum"),
    ("struct_variant", ["<SerializeMapVariant as SerializeStructVariant>::end"], "deserialize_enum"),
]


def _find_serde_fn(cx, suffix):
    for f in cx.F.fns.values():
        if f.crate.uname != "koto_serde" or f.kind == "Closure":
            continue
        q = f.qual
        if suffix.startswith("<"):
            if q.endswith(suffix):
                return f
        elif suffix.startswith("Serializer::"):
            if f.impl_self == "Serializer" and f.impl_trait == "Serializer" and f.method == suffix.split("::")[1]:
                return f
        elif f.impl_self == "Deserializer" and f.impl_trait == "Deserializer" and f.method == suffix:
            return f
    return None


def _accepted_variants(cx, fn):
    """KValue variants a deserialize_* method handles: the listed targets of its switch over the value's discriminant
    whose region does not consist of an error return only"""
    regions = _variant_regions(cx, fn, KVALUE)
    if regions is None:
        return None
    out = set()
    for v, blocks in regions.items():
        if v == "*":
            continue
        out.add(v)
    return out


def rule_serde_enc(cx, tier):
    r = RuleResult("R-SERDE-ENC", "Rust data <-> Koto value: for each serde data-model kind, the KValue kinds the "
                                  "Serializer produces are among the kinds the Deserializer's method for that kind accepts")
    n = 0
    for kind, sers, de in ENC_TABLE:
        df = _find_serde_fn(cx, de)
        if df is None:
            r.undecided.append(f"{de} not found")
            continue
        acc = _accepted_variants(cx, df)
        if acc is None:
            r.undecided.append(f"{de}: no match over KValue found (forwards to deserialize_any?)")
            continue
        for sname in sers:
            sf = _find_serde_fn(cx, sname)
            if sf is None:
                r.undecided.append(f"{sname} not found")
                continue
            n += 1
            r.instances += 1
            r.nontrivial += 1
            prod = {k for k in kvalue_kinds_returned(cx, sf) if not k.startswith("?")}
            missing = sorted(k for k in prod if k not in acc)
            if missing:
                r.add(Finding("R-SERDE-ENC", df.qual, f"{kind}:{','.join(missing)}", f"{sf.qual.rsplit('::', 2)[-2]}::"
                              f"{sf.method} produces KValue::{missing[0]} for serde kind `{kind}`, but {de} only accepts "
                              f"{sorted(acc)}: Rust data of that kind does not survive the round trip", df.file, df.line))
            r.sample({"kind": kind, "produced": sorted(prod), "accepted": sorted(acc), "ok": not missing}, limit=16)
    r.analysed = {"kinds_checked": n}
    r.floor("serde kinds with a producer/acceptor pair", n, 7)
    return r


def rule_parse_err(cx, tier):
    r = RuleResult("R-PARSE-ERR", "malformed input yields an error: libs/{json,yaml,toml} never unwrap/expect the Result "
                                  "of the foreign parser or of the value conversion")
    n = 0
    for fn in cx.F.fns.values():
        if fn.crate.uname not in ("koto_json", "koto_yaml", "koto_toml"):
            continue
        n += 1
        for c in fn.calls():
            if c.is_("Result::unwrap", "Result::expect", "Option::unwrap", "Option::expect", "Result::unwrap_unchecked"):
                r.instances += 1
                r.nontrivial += 1
                r.add(Finding("R-PARSE-ERR", cx.label(fn), c.short, f"{c.short} in an interchange library: a failing "
                              f"parse or conversion panics instead of returning an error", fn.file, c.line))
        r.instances += 1
    r.analysed = {"functions": n}
    r.floor("functions in the interchange libraries", n, 6)
    r.nontrivial = max(r.nontrivial, 2)
    return r


# ---------------------------------------------------------------------------------------------
# R-SERDE-NARROW (C20): a number that does not fit the requested Rust type is an error, not a different number

def rule_serde_narrow(cx, tier):
    r = RuleResult("R-SERDE-NARROW", "koto_serde::Deserializer hands an integer visitor method (visit_i8 .. visit_u64, "
                                     "visit_i64 for the 64/128-bit requests) a value that was converted from the KNumber with a "
                                     "checked conversion: `From<KNumber> for <int>` saturates integers and truncates floats, so "
                                     "300 becomes the u8 255 and 1.5 becomes 1 instead of an out-of-range error")
    F = cx.F
    n = 0
    for fn in F.fns.values():
        if fn.crate.uname != "koto_serde" or fn.derived or fn.impl_trait != "Deserializer" or \
                not (fn.method or "").startswith("deserialize_"):
            continue
        du = cx.du(fn)
        for c in fn.calls():
            m = re.match(r"visit_(i8|i16|i32|i64|i128|u8|u16|u32|u64|u128)$", (c.pretty or c.short or "").rsplit("::", 1)[-1])
            if not m or len(c.args) < 2:
                continue
            n += 1
            r.instances += 1
            r.nontrivial += 1
            # where does the value come from
            l = op_base(c.args[1])
            how = "unknown"
            conv = None
            for _ in range(8):
                if l is None:
                    break
                d = du.single_def(l)
                if d is None:
                    break
                if d[2] == "call":
                    cc = d[3]
                    t = F.fns.get(cc.resolved)
                    last = (cc.pretty or cc.short or "").rsplit("::", 1)[-1]
                    if t is not None and t.impl_trait == "From" and t.crate.uname == "koto_runtime" and \
                            "KNumber" in (t.qual or ""):
                        how, conv = "unchecked", cc
                        break
                    if last in ("try_from", "try_into"):
                        # checked only if the source is an integer, not the KNumber itself (TryFrom<KNumber> is the blanket
                        # impl over the unchecked From)
                        aty = fn.crate.tstr(cc.arg_ty(0)) if cc.args else ""
                        if "KNumber" in aty:
                            how, conv = "unchecked", cc
                        else:
                            how = "checked"
                        break
                    if cc.is_("Try::branch", "Into::into", "From::from") and cc.args:
                        l = op_base(cc.args[0])
                        continue
                    if t is not None and t.crate.uname == "koto_serde":
                        # a helper of this crate: checked if it narrows an integer with try_from and never uses the
                        # unchecked KNumber conversion
                        inner = [(x.pretty or x.short or "").rsplit("::", 1)[-1] for x in t.calls()]
                        unchecked = any(F.fns.get(x.resolved) is not None and F.fns[x.resolved].impl_trait == "From" and
                                        "KNumber" in (F.fns[x.resolved].qual or "") and
                                        F.fns[x.resolved].crate.uname == "koto_runtime" for x in t.calls())
                        if ("try_from" in inner or "try_into" in inner) and not unchecked:
                            how = "checked (helper " + (t.qual or t.name).rsplit("::", 1)[-1] + ")"
                        elif unchecked:
                            how, conv = "unchecked", cc
                    break
                rv = d[3]
                if rv[0] in ("use", "cast"):
                    pl = op_place(rv[1] if rv[0] == "use" else rv[2])
                    if pl is not None and place_variant(pl) == "I64":
                        how = "exact (payload of KNumber::I64)"
                        break
                    l = pl[0] if pl is not None else None
                    continue
                break
            r.sample({"method": fn.method, "visitor": m.group(0), "conversion": how})
            if how == "unknown":
                r.undecided.append(f"{fn.method}: origin of the value passed to {m.group(0)} not understood")
            if how == "unchecked":
                r.add(Finding("R-SERDE-NARROW", fn.qual, m.group(0),
                              f"{fn.method} converts the KNumber with the saturating / truncating `From<KNumber>` conversion "
                              f"before calling {m.group(0)}: an integer outside the type's range is clamped and a fractional "
                              f"float is truncated instead of being reported as out of range", fn.file, c.line))
    r.analysed = {"integer_visitor_calls_in_deserialize_methods": n}
    r.floor("integer visitor calls in Deserializer::deserialize_*", n, 6)
    return r
