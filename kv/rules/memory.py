"""Memory strategy rules: R-BUILD-DIFF, R-SIBLING-API, R-ATOMIC (C19)."""
import collections
import re

from .. import facts
from ..engine import Broken, Finding, RuleResult, require
from ..facts import loc_macros
from ..mir import op_base, op_local, op_place, place_fields
from .common import Ctx

# rc <-> arc counterparts: the same program modulo the cell / pointer implementation
SUBST = [
    ("MappedRwLockReadGuard", "Ref"), ("MappedRwLockWriteGuard", "RefMut"), ("RwLockReadGuard", "Ref"),
    ("RwLockWriteGuard", "RefMut"), ("RwLock", "RefCell"), ("Arc", "Rc"), ("ptr_impl::arc::", "ptr_impl::rc::"),
]
# where the two builds may differ (reviewed places), one line each
DIFF_ALLOWED = [
    ("koto_memory::ptr_impl::", "the feature-selected pointer / cell implementation itself"),
    ("koto::error::", "the rc check builds the koto crate with its default `serde` feature, the arc check without"),
    ("::___koto_", "koto_derive's access-map cache: thread_local! under rc, LazyLock under arc around the same map"),
    ("koto::<Error as ", "koto::Error's derived impls differ by the serde variant only"),
]


def _norm(name):
    for a, b in SUBST:
        name = name.replace(a, b)
    return name


def _sig(fn):
    calls = collections.Counter()
    for c in fn.calls():
        m = loc_macros(c.loc)
        if any(x in ("__lazy", "lazy", "thread_local", "$crate::__lazy", "koto_memory::__lazy") or x.endswith("lazy") for x in m):
            continue   # the lazily initialised constant: thread_local! vs LazyLock, selected inside koto_memory's macro
        calls[_norm(c.short)] += 1
    # branches decided by a compile-time constant (`cfg!(feature = ..)` expands to true / false)
    const_assign = {}
    for b in fn.blocks:
        if b.cleanup:
            continue
        for st in b.stmts:
            if st[0] == "a" and not st[1][1] and st[2][0] == "use" and st[2][1][0] == "k" and "i" in st[2][1][1]:
                const_assign.setdefault(st[1][0], []).append(st[2][1][1]["i"])
    for b in fn.blocks:
        if b.cleanup or b.term[0] != "switch":
            continue
        o = b.term[1]
        if o[0] == "k":
            calls[("const-branch", o[1].get("i"))] += 1
        else:
            l = op_base(o)
            vals = const_assign.get(l)
            if vals is not None and len(vals) == 1 and not any(
                    st[0] == "a" and st[1][0] == l and st[2][0] != "use" for bb in fn.blocks for st in bb.stmts):
                calls[("const-branch", vals[0])] += 1
    nsw = sum(1 for b in fn.blocks if not b.cleanup and b.term[0] == "switch")
    nret = sum(1 for b in fn.blocks if not b.cleanup and b.term[0] == "ret")
    return (tuple(sorted(calls.items(), key=str)), nsw, nret, fn.argc)


def rule_build_diff(cx, tier):
    r = RuleResult("R-BUILD-DIFF", "the rc and arc runtimes are the same program outside the pointer/cell module: every "
                                   "function of the shared crates has, in both builds, the same callee multiset (after "
                                   "renaming Rc/Arc, RefCell/RwLock and their guards), the same number of branches and "
                                   "the same arity; functions existing in one build only lie in the reviewed places")
    Fr = facts.load("rc")
    Fa = facts.load("arc")
    crates = {f.crate.uname for f in Fa.fns.values()} - {"koto_derive"}
    a_fns = {n: f for n, f in Fa.fns.items() if f.crate.uname in crates}
    r_fns = {n: f for n, f in Fr.fns.items() if f.crate.uname in crates}
    common = sorted(set(a_fns) & set(r_fns))
    r.analysed = {"crates": sorted(crates), "functions_in_both": len(common),
                  "arc_only": len(set(a_fns) - set(r_fns)), "rc_only": len(set(r_fns) - set(a_fns))}
    r.floor("functions present in both builds", len(common), 1500)

    def allowed(name, qual):
        for pat, why in DIFF_ALLOWED:
            if pat in name or pat in qual:
                return why
        if "::VALUE" in name:
            return "lazily initialised constant (thread_local! vs LazyLock inside koto_memory's __lazy! macro)"
        return None

    for n in common:
        fa, fr = a_fns[n], r_fns[n]
        r.instances += 1
        sa, sr = _sig(fa), _sig(fr)
        if sa == sr:
            continue
        r.nontrivial += 1
        why = allowed(n, fr.qual)
        if why:
            r.sample({"fn": fr.qual, "differs": True, "allowed": why}, limit=6)
            continue
        da = sorted(set(sa[0]) - set(sr[0]))[:3]
        dr = sorted(set(sr[0]) - set(sa[0]))[:3]
        r.add(Finding("R-BUILD-DIFF", fr.qual, "shape", f"this function differs between the rc and the arc build beyond the "
                      f"pointer/cell renaming (arc only: {da}; rc only: {dr}; branches {sa[1]} vs {sr[1]}): the two "
                      f"memory strategies no longer run the same program here", fr.file, fr.line))
    for n in sorted(set(a_fns) ^ set(r_fns)):
        f = a_fns.get(n) or r_fns.get(n)
        r.instances += 1
        r.nontrivial += 1
        if allowed(n, f.qual) or f.kind == "Closure" and allowed(f.root or "", ""):
            continue
        which = "arc" if n in a_fns else "rc"
        r.add(Finding("R-BUILD-DIFF", f.qual, "only-" + which, f"this function exists only in the {which} build and is "
                      f"outside the reviewed feature-dependent places", f.file, f.line))
    r.nontrivial = max(r.nontrivial, 2)
    return r


def rule_sibling_api(cx, tier):
    r = RuleResult("R-SIBLING-API", "ptr_impl::rc and ptr_impl::arc define the same functions with the same arity; the "
                                    "try_* variants are non-blocking in both (they call the cell's try_* method and never "
                                    "the blocking/panicking one), the plain variants call the plain method")
    Fr = facts.load("rc")
    Fa = facts.load("arc")
    rc = {f.method: f for f in Fr.fns.values() if f.name.startswith("koto_memory::ptr_impl::rc::") and f.kind != "Closure"}
    arc = {f.method: f for f in Fa.fns.values() if f.name.startswith("koto_memory::ptr_impl::arc::") and f.kind != "Closure"}
    r.analysed = {"rc_items": sorted(rc), "arc_items": sorted(arc)}
    require(len(rc) >= 4 and len(arc) >= 4, "R-SIBLING-API: ptr_impl::{rc,arc} functions not found")
    for m in sorted(set(rc) | set(arc)):
        r.instances += 1
        r.nontrivial += 1
        if m not in rc or m not in arc:
            f = rc.get(m) or arc.get(m)
            if f.vis != "pub":
                continue          # a private helper of one strategy is not part of the interface the two have to share
            r.add(Finding("R-SIBLING-API", f.qual, "missing", f"{m} exists in only one of ptr_impl::rc / ptr_impl::arc",
                          f.file, f.line))
            continue
        if rc[m].argc != arc[m].argc:
            r.add(Finding("R-SIBLING-API", arc[m].qual, "arity", f"{m} takes {rc[m].argc} arguments under rc and "
                          f"{arc[m].argc} under arc", arc[m].file, arc[m].line))
    BLOCKING = {"borrow": ("RefCell::borrow", "RwLock::read"), "borrow_mut": ("RefCell::borrow_mut", "RwLock::write")}
    TRY = {"try_borrow": ("RefCell::try_borrow", "RwLock::try_read"), "try_borrow_mut": ("RefCell::try_borrow_mut", "RwLock::try_write")}
    for which, table, F2 in (("rc", rc, Fr), ("arc", arc, Fa)):
        for m, f in table.items():
            if m not in BLOCKING and m not in TRY:
                continue
            r.instances += 1
            r.nontrivial += 1
            cl = [f] + F2.closures_of(f)
            names = {c.short for g in cl for c in g.calls()}
            idx = 0 if which == "rc" else 1
            if m in TRY:
                want = TRY[m][idx]
                bad = [n for n in names if n in (BLOCKING[m[4:]][idx],) or n.endswith("ptr_impl::%s::%s" % (which, m[4:]))]
                if want not in names or bad:
                    r.add(Finding("R-SIBLING-API", f.qual, "try-blocks", f"{which}::{m} must be non-blocking: it should call "
                                  f"{want}" + (f" but calls {bad[0]}" if bad else " but does not") + ": a re-entrant borrow "
                                  f"that is an error under the other strategy blocks forever under this one",
                                  f.file, f.line))
            else:
                want = BLOCKING[m][idx]
                if want not in names:
                    r.add(Finding("R-SIBLING-API", f.qual, "plain", f"{which}::{m} does not call {want}", f.file, f.line))
            r.sample({"impl": which, "fn": m, "calls": sorted(n for n in names if "RefCell" in n or "RwLock" in n)})
    return r


# ---------------------------------------------------------------------------------------------
# R-ATOMIC

def rule_atomic(cx, tier):
    r = RuleResult("R-ATOMIC", "one operation, one guard: a core-library operation that modifies its instance container "
                               "acquires that container's lock once — it does not establish a fact (length, index "
                               "validity, key presence, previous value) under one lock acquisition and act on it under a "
                               "later, separate acquisition of the same container")
    from .borrow import BorrowInfo, canon_ty
    bi = BorrowInfo(cx)
    # lock-acquiring methods of the container handles: functions of KList / KMap that borrow directly
    acquire = {}
    for name, kinds in bi.direct.items():
        f = cx.F.fns[name]
        if f.impl_self in ("KList", "KMap") or f.qual.startswith("koto_runtime::KList::") or f.qual.startswith("koto_runtime::KMap::"):
            for (T, m) in kinds:
                if T in ("SmallVec<[KValue]>", "ValueMap"):
                    acquire[name] = m if acquire.get(name) != "mut" else "mut"
    # one level of wrappers (len(), is_empty(), get(), insert() …)
    for f in cx.F.fns.values():
        if (f.qual.startswith("koto_runtime::KList::") or f.qual.startswith("koto_runtime::KMap::")) and f.name not in acquire:
            modes = {acquire[c.resolved] for c in f.calls() if c.resolved in acquire}
            if modes:
                acquire[f.name] = "mut" if "mut" in modes else "shared"
    require(len(acquire) >= 6, f"R-ATOMIC: only {len(acquire)} lock-acquiring container methods found")
    n_ops = 0
    reent = cx.cg.reach_set({cx.need_fn("koto_runtime::KotoVm::execute_instructions").name})
    for fn in cx.F.fns.values():
        if fn.crate.uname != "koto_runtime" or "core_lib" not in fn.name:
            continue
        label = cx.label(fn)
        du = cx.du(fn)
        acqs = []
        for c in fn.calls():
            m = acquire.get(c.resolved)
            if m is None or not c.args:
                continue
            l = op_base(c.args[0])
            acqs.append((c, m, _named_base(fn, du, l)))
        # a map under construction in a module builder is not yet visible to any other runtime
        acqs = [a for a in acqs if a[2] is not None and not _is_fresh_local(fn, du, a[2][1])]
        if len(acqs) < 2:
            continue
        n_ops += 1
        by_root = {}
        for c, m, k in acqs:
            by_root.setdefault(k, []).append((c, m))
        cfg = cx.cfg(fn)
        for k, lst in by_root.items():
            if k is None or len(lst) < 2:
                continue
            muts = [c for c, m in lst if m == "mut"]
            if not muts:
                continue
            r.instances += 1
            r.nontrivial += 1
            # an earlier acquisition that can be followed by a later mutable one on a path
            pair = None
            for c1, m1 in lst:
                for c2 in muts:
                    if c1 is c2:
                        continue
                    if c2.bb in cfg.reachable_after(c1.bb) or (c1.bb == c2.bb and lst.index((c1, m1)) < [x[0] for x in lst].index(c2)):
                        pair = (c1, c2)
                        break
                if pair:
                    break
            if pair is None:
                continue
            c1, c2 = pair
            # nothing re-entrant may lie between the two acquisitions (an operation that runs a user callback in
            # between cannot be atomic by design, and must release the lock to avoid self-deadlock: R-BORROW)
            between = cfg.reachable_after(c1.bb) & cfg.reach
            back = set()
            work = [c2.bb]
            while work:
                b = work.pop()
                if b in back:
                    continue
                back.add(b)
                work.extend(p for p in cfg.pred[b] if p in between or p == c1.bb)
            mid = (between & back) - {c1.bb, c2.bb}
            if any(any(t in reent for t in cx.cg.targets(c)) for c in fn.calls() if c.bb in mid):
                r.sample({"fn": label, "pair": f"{c1.line}->{c2.line}", "verdict": "callback in between: not a single "
                          "container operation"}, limit=20)
                continue
            # what is done under the second guard, and does it depend on what was learned under the first
            act = _action_on_guard(cx, fn, du, c2)
            dep = None
            if act in ("insert", "remove", "swap", "drain", "split_off", "swap_remove", "index_mut") and "ValueVec" in _short_T(c2, fn, bi) :
                dep = f"an index validated under the first guard is used by {act}() under the second: if another runtime " \
                      f"shrinks the list in between, {act}() panics"
            elif act in ("insert", "shift_remove", "remove", "swap_remove") and c1.bb != c2.bb and \
                    not cfg.dominates(c2.bb, c1.bb) and _control_dependent(cfg, c1, c2):
                dep = f"{act}() under the second guard is conditional on a test made under the first (check-then-act): " \
                      f"an update made by another runtime in between is lost"
            if dep is None and c1.bb != c2.bb:
                # (c) read-modify-write: what was read under the first acquisition is returned, or written back,
                # while the container is modified under the second
                derived = _forward(fn, {c1.dest[0]} if not c1.dest[1] else set())
                into_ret = 0 in derived
                into_act = any(op_base(a) in derived for a in c2.args[1:])
                if (into_ret or into_act) and (act is None or act in ("insert", "remove", "push", "shift_remove")):
                    dep = "a value read under the first acquisition is " + ("returned" if into_ret else "written back") + \
                          " while the container is modified under the second (read-modify-write): two runtimes can both " \
                          "read the same previous state"
            if dep is None:
                r.sample({"fn": label, "pair": f"{c1.line}->{c2.line}", "action": act, "verdict": "no dependent use that "
                          "can fail or lose an update"}, limit=20)
                continue
            r.add(Finding("R-ATOMIC", label, f"{c1.short.rsplit('::', 1)[-1]}->{c2.short.rsplit('::', 1)[-1]}",
                          f"the operation acquires its container's lock with {c1.short.rsplit('::', 2)[-2]}::"
                          f"{c1.short.rsplit('::', 1)[-1]}() (line {c1.line}) and again, separately, with "
                          f"{c2.short.rsplit('::', 1)[-1]}() (line {c2.line}) to modify it: under the arc strategy another "
                          f"runtime can change the container in between — " + dep, fn.file, c2.line))
        r.sample({"fn": label, "acquisitions": [(c.short.rsplit("::", 1)[-1], m) for c, m, _ in acqs][:6]}, limit=12)
    r.analysed = {"lock_acquiring_methods": len(acquire), "operations_with_two_or_more_acquisitions": n_ops}
    return r


def _short_T(call, fn, bi):
    t = fn.crate.tstr(fn.local_ty(call.dest[0])) if not call.dest[1] else ""
    return "ValueVec" if ("SmallVec" in t or "ValueVec" in t) else ("ValueMap" if "ValueMap" in t else t)


def _action_on_guard(cx, fn, du, acq):
    """name of the first method applied to the data behind the guard returned by `acq` (through deref_mut)"""
    g = acq.dest[0]
    derived = {g}
    changed = True
    while changed:
        changed = False
        for b in fn.blocks:
            if b.cleanup:
                continue
            for st in b.stmts:
                if st[0] == "a" and not st[1][1] and st[1][0] not in derived:
                    rv = st[2]
                    src = None
                    if rv[0] in ("ref", "rawptr"):
                        src = rv[2][0]
                    elif rv[0] == "use":
                        src = op_base(rv[1])
                    if src in derived:
                        derived.add(st[1][0])
                        changed = True
        for c in fn.calls():
            if c.is_("Deref::deref", "DerefMut::deref_mut", "AsMut::as_mut") and c.args and op_base(c.args[0]) in derived \
                    and c.dest[0] not in derived:
                derived.add(c.dest[0])
                changed = True
    for c in fn.calls():
        if c is acq or not c.args:
            continue
        if c.is_("Deref::deref", "DerefMut::deref_mut", "AsMut::as_mut"):
            continue
        if op_base(c.args[0]) in derived:
            nm = c.short.rsplit("::", 1)[-1]
            return nm
    return None


def _forward(fn, seeds):
    """locals data-dependent on the seeds (moves, copies, refs, aggregates, call results of calls taking them)"""
    derived = set(seeds)
    changed = True
    while changed:
        changed = False
        for b in fn.blocks:
            if b.cleanup:
                continue
            for st in b.stmts:
                if st[0] != "a" or st[1][0] in derived:
                    continue
                from ..mir import rv_places
                if any(pl[0] in derived for pl in rv_places(st[2])):
                    derived.add(st[1][0])
                    changed = True
            t = b.term
            if t[0] == "call" and t[1]["dest"][0] not in derived:
                if any(op_base(a) in derived for a in t[1]["args"]):
                    derived.add(t[1]["dest"][0])
                    changed = True
    return derived


def _control_dependent(cfg, c1, c2):
    """is c2 reached on only one side of a branch that follows c1"""
    for b in cfg.reachable_after(c1.bb) | {c1.bb}:
        succ = cfg.succ[b]
        if len(succ) < 2 or not (b == c1.bb or cfg.dominates(c1.bb, b)):
            continue
        reach = [c2.bb == s or c2.bb in cfg.reachable({s}) for s in succ]
        if any(reach) and not all(reach):
            return True
    return False


def _is_fresh_local(fn, du, l):
    """is the named local initialised by a constructor call in this function (a container nobody else can see yet)"""
    d = du.single_def(l)
    if d is not None and d[2] == "call":
        last = d[3].short.rsplit("::", 1)[-1]
        return last in ("new", "default", "with_type", "with_capacity", "with_data", "with_contents", "from_slice")
    return False


def _named_base(fn, du, l):
    """the user-named local (pattern binding / variable / parameter) a receiver reference denotes, following
    reborrows and copies only; None when the receiver is a temporary (fresh container, call result)"""
    for _ in range(8):
        if l is None:
            return None
        if fn.local_name(l) is not None:
            return ("var", l, fn.local_name(l))
        d = du.single_def(l)
        if d is None or d[2] != "assign":
            return None
        rv = d[3]
        if rv[0] == "ref":
            pl = rv[2]
            if any(isinstance(p, list) and p[0] in ("f", "v", "i") for p in pl[1]):
                return None
            l = pl[0]
        elif rv[0] == "use":
            pl = op_place(rv[1])
            if pl is None or any(isinstance(p, list) and p[0] in ("f", "v", "i") for p in pl[1]):
                return None
            l = pl[0]
        else:
            return None
    return None


def _root_key(root):
    if root is None:
        return None
    if root[0] == "field":
        base = _root_key(root[1])
        return (base, tuple(root[2])) if base is not None else None
    if root[0] == "arg":
        return ("arg", root[1])
    if root[0] == "call":
        return ("call", root[1].bb)
    if root[0] == "multi":
        return ("local", root[1])
    return None


# ---------------------------------------------------------------------------------------------
# R-SNAPSHOT-WRITEBACK (C19): a whole container is never overwritten with a stale copy of itself

def rule_snapshot_writeback(cx, tier):
    r = RuleResult("R-SNAPSHOT-WRITEBACK", "no operation replaces the whole contents of a shared list or map "
                                           "(`*x.data_mut() = copy`) with a value derived from a copy that it took under an "
                                           "earlier, separate lock acquisition of the same container (`x.data().clone()`): every "
                                           "insert, remove or assignment that another runtime makes in between is overwritten "
                                           "-- a lost update, whether or not user code runs in between")
    from .narrow import Sym, place_fields as pf
    F = cx.F
    n = 0
    for fn in F.fns.values():
        if fn.crate.uname != "koto_runtime" or fn.derived:
            continue
        du = cx.du(fn)
        sym = None
        for b in fn.blocks:
            if b.cleanup:
                continue
            for st in b.stmts:
                if st[0] != "a" or "*" not in st[1][1] or st[2][0] != "use":
                    continue
                if [p for p in st[1][1] if p != "*"]:
                    continue                        # a field / element, not the whole value
                # the target: deref of deref_mut(&mut guard) with guard = data_mut(handle)
                rr = _root_full(du, st[1][0])
                if rr[0] != "call" or rr[1].short.rsplit("::", 1)[-1] != "data_mut" or \
                        not (rr[1].short.startswith("koto_runtime::KList::") or rr[1].short.startswith("koto_runtime::KMap::")):
                    continue
                n += 1
                r.instances += 1
                r.nontrivial += 1
                sym = sym or Sym(cx, fn)
                guard_call = rr[1]
                hp = op_place(guard_call.args[0]) if guard_call.args else None
                handle = sym.canon(hp[0], pf(hp)) if hp is not None else None
                # the value: does it derive from clone(data(handle)) of the same handle
                stale = None
                seen = set()
                work = [op_base(st[2][1])]
                while work:
                    l = work.pop()
                    if l is None or l in seen or len(seen) > 60:
                        continue
                    seen.add(l)
                    for d in du.defs.get(l, []):
                        if d[2] == "call":
                            c = d[3]
                            if c.is_("Clone::clone") and c.args:
                                r2 = du.root(op_base(c.args[0]), through_calls=("Deref::deref",))
                                if r2[0] == "field":
                                    r2 = r2[1]
                                if r2[0] == "call" and r2[1].short.rsplit("::", 1)[-1] == "data" and r2[1].args:
                                    hp2 = op_place(r2[1].args[0])
                                    if hp2 is not None and sym.canon(hp2[0], pf(hp2)) == handle:
                                        stale = c
                            for a in c.args:
                                work.append(op_base(a))
                        elif d[2] in ("assign", "partial"):
                            from ..mir import rv_places
                            for pl in rv_places(d[3]):
                                work.append(pl[0])
                    # values modified in place through &mut (sort_values(&mut data)) keep their origin
                from ..mir import line_of
                line = loc_line_st(st, fn)
                r.sample({"fn": cx.label(fn), "line": line, "container": handle, "stale_copy": stale is not None})
                if stale is not None:
                    r.add(Finding("R-SNAPSHOT-WRITEBACK", cx.label(fn), f"{handle}",
                                  f"the contents of `{handle}` are replaced by a value derived from the copy taken at line "
                                  f"{stale.line} under a separate lock acquisition: an update that another runtime makes to "
                                  f"the container in between is lost", fn.file, line))
    n_guards = 0
    for fn in F.fns.values():
        if fn.crate.uname == "koto_runtime" and not fn.derived:
            n_guards += sum(1 for c in fn.calls() if c.short in ("koto_runtime::KList::data_mut", "koto_runtime::KMap::data_mut"))
    r.instances += n_guards        # every mutable guard was examined for an assignment of the whole value through it
    r.analysed = {"whole_container_assignments": n, "mutable_guards_examined": n_guards}
    r.floor("data_mut() guard acquisitions in koto_runtime", n_guards, 22)
    return r


def _root_full(du, local, hops=0):
    """like DefUse.root, but writes *through* the local (partial definitions) do not hide its own definition"""
    while local is not None and hops < 16:
        hops += 1
        ds = du.full_defs(local)
        if len(ds) != 1:
            return ("multi", local)
        d = ds[0]
        if d[2] == "call":
            c = d[3]
            nm = (c.callee or "") + " " + (c.resolved or "")
            if ("deref_mut" in nm or "Deref::deref" in nm or "::deref" in nm) and c.args:
                local = op_base(c.args[0])
                continue
            return ("call", c)
        rv = d[3]
        if rv[0] in ("use", "cast"):
            local = op_base(rv[1] if rv[0] == "use" else rv[2])
        elif rv[0] in ("ref", "rawptr"):
            local = rv[2][0]
        else:
            return ("rv", rv)
    return ("multi", local)


def loc_line_st(st, fn):
    from ..facts import loc_line
    return loc_line(st[3]) if len(st) > 3 else fn.line
