"""R-ENC / R-HANDLERS / R-ENC-FLAGS: the bytecode writer and reader agree on every instruction's layout (C01, C05)."""
from ..engine import Broken, Finding, RuleResult, require
from ..facts import loc_line, loc_macros
from ..mir import line_of, op_base, op_const, op_int, op_local, op_place, place_fields
from .common import operand_agg, self_field_root
from .compiler import COMP, compiler_methods

OP = "koto_bytecode::op::Op"
READER = "koto_bytecode::<InstructionReader as Iterator>::next"
READ_MACROS = ("get_u8", "get_u8_array", "get_u8x2", "get_u8x3", "get_u8x4", "get_u8x5", "get_u8x6", "get_u16",
               "get_var_u32", "get_var_u32_with_first_byte")


# ---- reader -------------------------------------------------------------------------------------

def reader_grammar(cx):
    """{Op variant: [token]} with token = ('F', n, optional) | ('V', optional) | ('VB', optional); byte_a is implicit"""
    fn = cx.need_fn(READER)
    cfg = cx.cfg(fn)
    du = cx.du(fn)
    a = cx.F.adts.get(OP)
    require(a is not None, "R-ENC: enum Op not found")
    by_discr = {v["discr"]: v["name"] for v in a["variants"]}
    # the switch over the Op discriminant: the one with the most targets
    best = None
    for b in fn.blocks:
        if b.cleanup or b.term[0] != "switch":
            continue
        l = op_base(b.term[1])
        d = du.single_def(l) if l is not None else None
        if d is None or d[2] != "assign" or d[3][0] != "discr":
            continue
        pl = d[3][1]
        ty = pl[2] if len(pl) > 2 else fn.local_ty(pl[0])
        if fn.crate.tdef(ty) == OP and (best is None or len(b.term[2]) > len(best.term[2])):
            best = b
    require(best is not None and len(best.term[2]) >= 60, "R-ENC: the match over Op in InstructionReader::next was not found")
    targets = {by_discr[v]: tb for v, tb in best.term[2] if v in by_discr}
    otherwise = best.term[3]
    # join block: where the arms meet again
    counts = {}
    regions = {}
    for name, tb in targets.items():
        reg = {x for x in cfg.reachable({tb}) if cfg.dominates(tb, x)}
        regions[name] = reg
        for x in reg:
            for s in cfg.succ[x]:
                if s not in reg:
                    counts[s] = counts.get(s, 0) + 1
    join = max(counts, key=counts.get)
    grammar = {}
    calls = {c.bb: c for c in fn.calls()}
    # fixed-width reads, independent of how the bytes are fetched (`copy_nonoverlapping`, `first_chunk::<N>`, ...): every read
    # macro advances the cursor by the number of bytes it consumed -- `self.ip += n` shows up as an overflow-checked
    # addition of a constant to `self.ip` with the macro's provenance
    from . import arith as _arith
    ip_adv = {}
    for bb, t in _arith._asserts(fn):
        if t[1] != "Overflow:Add" or len(t[5]) != 2:
            continue
        m = set(loc_macros(t[6]))
        if not (m & set(READ_MACROS)) or (m & {"get_var_u32", "get_var_u32_with_first_byte"}):
            continue
        pls = [op_place(o) for o in t[5]]
        ks = [op_int(o) for o in t[5]]
        if any(pl is not None and place_fields(pl)[-1:] == ["ip"] for pl in pls) and any(k is not None for k in ks):
            ip_adv[bb] = next(k for k in ks if k is not None)
    use_ip_adv = len(ip_adv) >= 20
    for name, tb in targets.items():
        reg = regions[name]
        toks = []
        if use_ip_adv:
            for bb in reg:
                if bb in ip_adv:
                    optional = False
                    if tb != bb:
                        p2 = cfg.find_path(tb, lambda b: b == join, {bb} | (set(range(cfg.n)) - reg - {join}),
                                           include_src_succs=False)
                        optional = p2 is not None
                    toks.append((len(cfg.dominators().get(bb, ())), bb, ("F", ip_adv[bb], optional)))
        for bb in reg:
            c = calls.get(bb)
            if c is None:
                continue
            m = set(loc_macros(c.loc))
            if not (m & set(READ_MACROS)):
                continue
            p = c.pretty or ""
            kind = None
            if use_ip_adv and not (m & {"get_var_u32", "get_var_u32_with_first_byte"}):
                continue            # fixed-width reads were taken from the cursor advances above
            if p.endswith("copy_nonoverlapping") or c.short.endswith("copy_nonoverlapping"):
                n = op_int(c.args[2]) if len(c.args) > 2 else None
                if n is None and len(c.args) > 2:
                    l = op_local(c.args[2])
                    r0 = du.root(l) if l is not None else None
                    if r0 and r0[0] == "const":
                        n = r0[1].get("i")
                require(n is not None, f"R-ENC: byte count of a get_u8_array read in the {name} arm is not constant")
                kind = ("F", n)
            elif p.endswith("::get") or c.short.endswith("::get") or ">::get" in p:
                if "get_var_u32_with_first_byte" in m:
                    kind = ("VB",)
                elif "get_var_u32" in m:
                    kind = ("V",)
                elif "get_u8" in m:
                    kind = ("F", 1)
            if kind is None:
                continue
            # optional: a successful path through the arm can avoid this read
            optional = False
            if tb != bb:
                p2 = cfg.find_path(tb, lambda b: b == join, {bb} | (set(range(cfg.n)) - reg - {join}), include_src_succs=False)
                optional = p2 is not None
            if kind[0] == "VB":
                optional = False   # its first byte has been read already; only the continuation bytes are conditional
            depth = len(cfg.dominators().get(bb, ()))
            toks.append((depth, bb, kind + (optional,)))
        toks.sort()
        grammar[name] = [t[2] for t in toks]
    return grammar, sorted(targets), fn


def _normalise(tokens):
    """merge adjacent fixed tokens; apply VB (the var-int's first byte is the last fixed byte read before it)"""
    out = []
    for t in tokens:
        if t[0] == "F":
            if t[1] == 0:
                continue
            if out and out[-1][0] == "F":
                out[-1] = ("F", out[-1][1] + t[1])
            else:
                out.append(("F", t[1]))
        elif t[0] == "VB":
            if out and out[-1][0] == "F":
                if out[-1][1] <= 1:
                    out.pop()
                else:
                    out[-1] = ("F", out[-1][1] - 1)
            out.append(("V",))
        else:
            out.append(("V",))
    return tuple(out)


def reader_alternatives(tokens):
    """all normalised layouts the reader accepts for an op (optional reads present or absent); byte_a included"""
    opt_idx = [i for i, t in enumerate(tokens) if t[-1]]
    alts = set()
    for mask in range(1 << len(opt_idx)):
        chosen = [("F", 1)]
        for i, t in enumerate(tokens):
            if t[-1] and not (mask >> opt_idx.index(i)) & 1:
                continue
            chosen.append(t[:-1])
        alts.add(_normalise(chosen))
    return alts


# ---- writer -------------------------------------------------------------------------------------

def _array_len(cx, fn, operand, aty):
    """length of the byte array behind a `&[u8; n]` / `&[u8]` operand"""
    c = fn.crate
    t = c.types[aty]
    if t["k"] in ("ref", "refmut") and t.get("a"):
        inner = c.types[t["a"][0]]
        if inner["k"] == "array" and "n" in inner:
            return inner["n"]
    # unsized: follow the coercion back to the array
    du = cx.du(fn)
    l = op_base(operand)
    for _ in range(6):
        if l is None:
            return None
        d = du.single_def(l)
        if d is None or d[2] != "assign":
            return None
        rv = d[3]
        if rv[0] == "cast":
            ft = c.types[rv[4]]
            if ft["k"] in ("ref", "refmut") and ft.get("a"):
                inner = c.types[ft["a"][0]]
                if inner["k"] == "array" and "n" in inner:
                    return inner["n"]
            l = op_base(rv[2])
        elif rv[0] == "use":
            l = op_base(rv[1])
        elif rv[0] == "ref":
            pl = rv[2]
            ty = pl[2] if len(pl) > 2 else fn.local_ty(pl[0])
            inner = c.types[ty]
            if inner["k"] == "array" and "n" in inner:
                return inner["n"]
            l = pl[0]
        else:
            return None
    return None


class Writer:
    def __init__(self, cx):
        self.cx = cx
        self.fns = compiler_methods(cx)
        prim = {COMP + n for n in ("push_op", "push_op_without_span", "push_jump_back_op", "push_var_u32",
                                   "push_offset_placeholder", "push_loop_jump_placeholder", "push_bytes",
                                   "push_bytes_with_span")}
        self.prim = prim
        roots = {cx.need_fn(p).name for p in prim if cx.F.fn(p) is not None}
        self.may_emit = cx.cg.reach_set(roots)
        self._prefix = {}
        self._summaries()

    def _error_blocks(self, fn):
        """blocks that only lie on error exits: `?` break blocks and calls of always-Err constructors"""
        from .common import always_err, try_sites
        out = {ts.break_bb for ts in try_sites(self.cx, fn) if ts.break_bb is not None}
        for c in fn.calls():
            t = self.cx.F.fns.get(c.resolved)
            if t is not None and always_err(self.cx, t):
                out.add(c.bb)
        return out

    def _summaries(self):
        """MAY_EMPTY: functions that can return normally without emitting anything;
        NONOP_FIRST: functions whose first emission can be operand bytes rather than an opcode"""
        F = self.cx.F
        fns = [f for f in F.fns.values() if f.name in self.may_emit and f.crate.uname == "koto_bytecode"]
        info = {}
        for f in fns:
            ops, nonops, callees = set(), set(), {}
            for c in f.calls():
                k = self.emit_kind(f, c)
                if k is not None:
                    (ops if k[0] in ("OP", "OPJ") else nonops).add(c.bb)
                elif c.resolved in self.may_emit and c.resolved in F.fns:
                    callees[c.bb] = c.resolved
                elif c.cb and any(x in self.may_emit for x in c.cb):
                    callees[c.bb] = next(x for x in c.cb if x in self.may_emit)
            info[f.name] = (f, ops, nonops, callees, self._error_blocks(f))
        self.may_empty = set()
        changed = True
        while changed:
            changed = False
            for name, (f, ops, nonops, callees, errs) in info.items():
                if name in self.may_empty:
                    continue
                cfg = self.cx.cfg(f)
                block = ops | nonops | errs | {bb for bb, g in callees.items() if g not in self.may_empty and g in info}
                if 0 in block:
                    continue
                reach = cfg.reachable({0}, block)
                if any(b in reach for b in cfg.exits):
                    self.may_empty.add(name)
                    changed = True
        self.nonop_first = set()
        changed = True
        while changed:
            changed = False
            for name, (f, ops, nonops, callees, errs) in info.items():
                if name in self.nonop_first:
                    continue
                cfg = self.cx.cfg(f)
                goals = nonops | {bb for bb, g in callees.items() if g in self.nonop_first}
                block = ops | errs | {bb for bb, g in callees.items() if g not in self.may_empty and g not in self.nonop_first and g in info}
                block -= goals
                if 0 in block:
                    continue
                reach = cfg.reachable({0}, block)
                if goals & reach:
                    self.nonop_first.add(name)
                    changed = True

    def emit_kind(self, fn, c):
        s = c.short
        if s in (COMP + "push_op", COMP + "push_op_without_span"):
            return ("OP", _array_len(self.cx, fn, c.args[2], c.arg_ty(2)) if len(c.args) > 2 else None)
        if s == COMP + "push_jump_back_op":
            return ("OPJ", _array_len(self.cx, fn, c.args[2], c.arg_ty(2)) if len(c.args) > 2 else None)
        if s == COMP + "push_var_u32":
            return ("V",)
        if s in (COMP + "push_offset_placeholder", COMP + "push_loop_jump_placeholder"):
            return ("F", 2)
        if s == COMP + "push_bytes":
            return ("F", _array_len(self.cx, fn, c.args[1], c.arg_ty(1)) if len(c.args) > 1 else None)
        if c.is_("Vec::push") and c.args:
            l = op_base(c.args[0])
            fs = place_fields(op_place(c.args[0]))
            rr = self_field_root(self.cx.du(fn), l) or [] if l is not None else []
            if "bytes" in fs or "bytes" in rr:
                return ("F", 1)
        return None

    def op_variants(self, fn, operand, depth=3, seen=None):
        """Op variants that can flow into an op operand (through if/else assignments and parameters)"""
        seen = seen or set()
        du = self.cx.du(fn)
        out = set()
        k = op_const(operand)
        if k is not None:
            d = k.get("d", "")
            if "Op::" in d:
                out.add(d.rsplit("::", 1)[-1])
            return out
        l = op_base(operand)
        work = [l]
        visited = set()
        while work:
            l = work.pop()
            if l is None or l in visited:
                continue
            visited.add(l)
            if 1 <= l <= fn.argc:
                if depth > 0 and (fn.name, l) not in seen:
                    seen.add((fn.name, l))
                    for caller in self.cx.F.fns.values():
                        if caller.crate.uname != "koto_bytecode":
                            continue
                        for c in caller.calls():
                            if c.resolved == fn.name and len(c.args) >= l:
                                out |= self.op_variants(caller, c.args[l - 1], depth - 1, seen)
                continue
            for d in du.defs.get(l, []):
                if d[2] == "assign":
                    rv = d[3]
                    if rv[0] == "agg" and rv[1][0] == "adt" and fn.crate.defs[rv[1][1]] == OP:
                        out.add(rv[1][2])
                    elif rv[0] == "agg" and (rv[1][0] == "tuple" or (rv[1][0] == "adt" and rv[1][2] in ("Some", "Ok"))):
                        for o in rv[2]:
                            kk = op_const(o)
                            if kk is not None and "Op::" in kk.get("d", ""):
                                out.add(kk["d"].rsplit("::", 1)[-1])
                            else:
                                work.append(op_base(o))
                    elif rv[0] == "use":
                        kk = op_const(rv[1])
                        if kk is not None and "Op::" in kk.get("d", ""):
                            out.add(kk["d"].rsplit("::", 1)[-1])
                        else:
                            work.append(op_base(rv[1]))
                    elif rv[0] == "cast":
                        work.append(op_base(rv[2]))
                elif d[2] == "call":
                    c = d[3]
                    if c.is_("Clone::clone", "Into::into", "From::from", "Try::branch", "Result::map_err", "Option::unwrap",
                             "Result::unwrap", "Option::expect", "Option::unwrap_or", "Option::copied", "Option::cloned") and c.args:
                        for a in c.args:
                            kk = op_const(a)
                            if kk is not None and "Op::" in kk.get("d", ""):
                                out.add(kk["d"].rsplit("::", 1)[-1])
                            else:
                                work.append(op_base(a))
                    else:
                        t = self.cx.F.fns.get(c.resolved)
                        if t is not None and t.crate.uname == "koto_bytecode" and depth > 0:
                            out |= self._returned_ops(t, depth - 1)
        return out

    def _returned_ops(self, fn, depth):
        """Op variants a helper returns (e.g. `args_size_op` -> (Op, usize))"""
        out = set()
        c = fn.crate
        for b in fn.blocks:
            if b.cleanup:
                continue
            for st in b.stmts:
                if st[0] == "a" and st[2][0] == "agg" and st[2][1][0] == "adt" and c.defs[st[2][1][1]] == OP:
                    out.add(st[2][1][2])
        return out

    def continuation(self, fn, start_bb, skip_first=True, depth=2):
        """set of token tuples emitted after the emission in start_bb until the next opcode / end; None = undecided"""
        cfg = self.cx.cfg(fn)
        calls = {c.bb: c for c in fn.calls()}
        results = set()
        seen = set()
        errs = self._error_blocks(fn)
        work = [(s, ()) for s in cfg.succ[start_bb]] if skip_first else [(start_bb, ())]
        steps = 0
        while work:
            bb, toks = work.pop()
            if (bb, toks) in seen or bb in errs:
                continue   # error exits abort the compilation: what was emitted no longer matters
            seen.add((bb, toks))
            steps += 1
            if steps > 4000 or len(toks) > 10:
                return None
            c = calls.get(bb)
            stop = False
            if c is not None:
                k = self.emit_kind(fn, c)
                if k is not None:
                    if k[0] in ("OP", "OPJ"):
                        results.add(toks)
                        continue
                    if k[0] == "F" and k[1] is None:
                        return None
                    toks = toks + (k,)
                elif c.resolved in self.may_emit and c.resolved in self.cx.F.fns and c.resolved != fn.name:
                    g = c.resolved
                    if g in self.nonop_first:
                        pre = self.prefix(self.cx.F.fns[g], depth - 1) if depth > 0 else None
                    else:
                        # the callee's first emission is always an opcode; it may also emit nothing at all
                        pre = {(("END",),)} | ({()} if g in self.may_empty else set())
                    if pre is None:
                        return None
                    cont = False
                    for p in pre:
                        if p and p[-1] == ("END",):
                            results.add(toks + p[:-1])
                        else:
                            # the callee may return having emitted only operand bytes: carry on in the caller
                            for s in cfg.succ[bb]:
                                work.append((s, toks + p))
                            cont = True
                    continue
                elif c.virtual or (c.cb and any(x in self.may_emit for x in c.cb)):
                    # closures that emit (map(|x| self.compile...)): they start with an opcode
                    results.add(toks)
                    continue
            if fn.blocks[bb].term[0] == "ret":
                results.add(toks + (("RET",),))
                continue
            if not cfg.succ[bb]:
                continue   # unreachable / diverging
            for s in cfg.succ[bb]:
                work.append((s, toks))
        return results

    def prefix(self, fn, depth=2):
        """token tuples a function emits from its entry up to its first opcode (('END',) appended) or to its return"""
        key = (fn.name, depth)
        if key in self._prefix:
            return self._prefix[key]
        self._prefix[key] = {(("END",),)}   # recursion guard: assume an opcode comes first
        res = self.continuation(fn, 0, skip_first=False, depth=depth)
        if res is None:
            self._prefix[key] = None
            return None
        out = set()
        for t in res:
            if t and t[-1] == ("RET",):
                out.add(t[:-1])            # returned without an opcode: caller continues
            else:
                out.add(t + (("END",),))
        self._prefix[key] = out
        return out


def rule_enc(cx, tier):
    r = RuleResult("R-ENC", "every instruction the compiler emits has the operand layout its decoder reads: for each "
                            "emission site and each opcode that can reach it, the bytes written after the opcode (fixed "
                            "operand bytes, var-ints, 2-byte jump placeholders, optional tails) form a layout that "
                            "InstructionReader::next accepts for that opcode")
    grammar, arms, rfn = reader_grammar(cx)
    alts = {op: reader_alternatives(t) for op, t in grammar.items()}
    r.analysed = {"decoder_arms": len(grammar),
                  "layouts_with_var_int": sorted(op for op, t in grammar.items() if any(x[0] in ("V", "VB") for x in t))}
    r.floor("decoder arms", len(grammar), 63)
    w = Writer(cx)
    n_sites = 0
    emitted_ops = set()
    for fn in w.fns:
        if fn.qual in w.prim or fn.qual == COMP + "push_jump_back_op":
            continue
        label = fn.qual
        for c in fn.calls():
            k = w.emit_kind(fn, c)
            if k is None or k[0] not in ("OP", "OPJ"):
                continue
            n_sites += 1
            ops = w.op_variants(fn, c.args[1])
            emitted_ops |= ops
            if k[1] is None:
                r.undecided.append(f"{label}:{c.line} operand byte count not constant")
                continue
            if not ops:
                r.undecided.append(f"{label}:{c.line} opcode operand not resolved")
                continue
            cont = w.continuation(fn, c.bb)
            if cont is None:
                r.undecided.append(f"{label}:{c.line} continuation too complex")
                continue
            base = [("F", k[1])] + ([("F", 2)] if k[0] == "OPJ" else [])
            for op in sorted(ops):
                r.instances += 1
                r.nontrivial += 1
                if op not in alts:
                    r.add(Finding("R-ENC", label, f"{op}:no-arm", f"the compiler emits Op::{op} but InstructionReader::next "
                                  f"has no arm for it (it decodes as an 'Unexpected opcode' error instruction)",
                                  fn.file, c.line))
                    continue
                bad = None
                for seq in cont:
                    toks = base + [t for t in seq if t[0] in ("F", "V")]
                    wn = _normalise(toks)
                    if wn in alts[op]:
                        continue
                    # a single raw byte where a var-int is read is fine only if it is provably < 128
                    if _small_byte_ok(cx, fn, c, wn, alts[op]):
                        continue
                    bad = (wn, seq)
                    break
                if bad is not None:
                    wn, seq = bad
                    r.add(Finding("R-ENC", label, f"{op}:{_fmt(wn)}", f"Op::{op} is written as opcode + {_fmt(wn)} here, but "
                                  f"the decoder reads {' | '.join(sorted(_fmt(a) for a in alts[op]))}: the instruction "
                                  f"stream is mis-decoded from this point"
                                  + (" (a raw byte is written where a var-int is read: values >= 128 set the continuation "
                                     "bit)" if any(t == ("V",) for a in alts[op] for t in a) else ""),
                                  fn.file, c.line, [f"{fn.file}:{c.line} {c.short}({op}, {k[1]} bytes) then {seq}"]))
                r.sample({"fn": label, "op": op, "line": c.line, "written": sorted(_fmt(_normalise(base + [t for t in s if t[0] in ('F', 'V')])) for s in cont)[:3],
                          "read": sorted(_fmt(a) for a in alts[op])[:4]}, limit=14)
    r.analysed["emission_sites"] = n_sites
    r.analysed["distinct_ops_emitted"] = len(emitted_ops)
    r.floor("opcode emission sites", n_sites, 112)
    return r


def _fmt(layout):
    return " ".join(("F%d" % t[1]) if t[0] == "F" else "V" for t in layout) or "-"


def _small_byte_ok(cx, fn, call, wn, accepted):
    """writer has F(n) where the reader has F(n-1) V and the last byte written is a constant < 128"""
    for a in accepted:
        if len(wn) >= 1 and wn[-1][0] == "F":
            cand = list(wn[:-1]) + ([("F", wn[-1][1] - 1)] if wn[-1][1] > 1 else []) + [("V",)]
            if tuple(cand) == a:
                # the last element of the byte array
                du = cx.du(fn)
                l = op_base(call.args[2]) if len(call.args) > 2 else None
                for _ in range(6):
                    if l is None:
                        return False
                    d = du.single_def(l)
                    if d is None or d[2] != "assign":
                        return False
                    rv = d[3]
                    if rv[0] == "agg" and rv[1][0] == "array" and rv[2]:
                        v = op_int(rv[2][-1])
                        return v is not None and 0 <= v < 128
                    if rv[0] in ("use", "cast"):
                        l = op_base(rv[1] if rv[0] == "use" else rv[2])
                    elif rv[0] == "ref":
                        l = rv[2][0]
                    else:
                        return False
    return False


def rule_handlers(cx, tier):
    r = RuleResult("R-HANDLERS", "no opcode or instruction without a consumer: every Op the compiler can emit has its own "
                                 "decoder arm, and KotoVm::execute_instruction has an arm for every Instruction variant "
                                 "with no wildcard")
    grammar, arms, rfn = reader_grammar(cx)
    w = Writer(cx)
    emitted = set()
    for fn in w.fns:
        for c in fn.calls():
            k = w.emit_kind(fn, c)
            if k is not None and k[0] in ("OP", "OPJ"):
                emitted |= w.op_variants(fn, c.args[1])
    # raw deferred ops: `vec![Capture as u8, ..]`
    r.analysed = {"ops_emitted": len(emitted), "decoder_arms": len(grammar)}
    r.floor("distinct opcodes emitted", len(emitted), 52)
    for op in sorted(emitted):
        r.instances += 1
        r.nontrivial += 1
        if op not in grammar:
            r.add(Finding("R-HANDLERS", rfn.qual, "no-arm:" + op, f"Op::{op} is emitted by the compiler but has no arm in "
                          f"InstructionReader::next", rfn.file, rfn.line))
    inst = cx.F.adts.get("koto_bytecode::instruction::Instruction")
    require(inst is not None, "R-HANDLERS: Instruction not found")
    ex = cx.need_fn("koto_runtime::KotoVm::execute_instruction")
    ms = cx.F.hir_matches.get(ex.name, [])
    best = max(ms, key=lambda m: len(m["arms"])) if ms else None
    require(best is not None and len(best["arms"]) >= 60, "R-HANDLERS: the match over Instruction in execute_instruction "
            "was not found")
    names = set()
    wildcard = False
    for pat, guard, line, body in best["arms"]:
        for alt in pat.split("|"):
            alt = alt.strip()
            head = alt.split("{")[0].split("(")[0].strip().rsplit("::", 1)[-1]
            if alt == "_" or (alt.isidentifier() and alt[0].islower()):
                wildcard = True
            names.add(head)
    for v in inst["variants"]:
        r.instances += 1
        r.nontrivial += 1
        if v["name"] not in names:
            r.add(Finding("R-HANDLERS", ex.qual, "no-handler:" + v["name"], f"Instruction::{v['name']} has no arm of its own "
                          f"in execute_instruction" + (" (it falls into a wildcard arm)" if wildcard else ""),
                          ex.file, best["line"]))
    if wildcard:
        r.add(Finding("R-HANDLERS", ex.qual, "wildcard", "execute_instruction has a wildcard arm: a new instruction would be "
                      "silently ignored", ex.file, best["line"]))
    r.sample({"fn": ex.qual, "arms": len(best["arms"]), "instruction_variants": len(inst["variants"]), "wildcard": wildcard})
    return r


def rule_enc_flags(cx, tier):
    r = RuleResult("R-ENC-FLAGS", "the StringPush flags byte announces exactly the optional operands the compiler appends: "
                                  "each has_* bit of StringFormatFlags is set under a test of its own StringFormatOptions "
                                  "field only (the compiler appends each operand under a test of the same field)")
    cands = [f for f in cx.F.fns.values() if f.crate.uname == "koto_bytecode" and f.impl_self == "StringFormatFlags"
             and f.impl_trait == "From" and f.method == "from" and not f.derived]
    conv = None
    for f in cands:
        if any("StringFormatOptions" in f.crate.tstr(f.local_ty(l)) for l in range(1, f.argc + 1)):
            conv = f
    require(conv is not None, "R-ENC-FLAGS: From<StringFormatOptions> for StringFormatFlags not found")
    cfg = cx.cfg(conv)
    du = cx.du(conv)
    # switches on Option fields of the options argument
    tests = {}
    for b in conv.blocks:
        if b.cleanup or b.term[0] != "switch":
            continue
        l = op_base(b.term[1])
        d = du.single_def(l) if l is not None else None
        if d is not None and d[2] == "assign" and d[3][0] == "discr":
            fs = place_fields(d[3][1])
            if fs:
                some = [tb for v, tb in b.term[2] if v == 1] or [b.term[3]]
                tests[b.idx] = (fs[-1], some[0])
        elif d is not None and d[2] == "call" and d[3].is_("Option::is_some") and d[3].args:
            al = op_base(d[3].args[0])
            rr = du.root(al) if al is not None else None
            fs = list(rr[2]) if rr and rr[0] == "field" else place_fields(op_place(d[3].args[0]) or [0, []])
            if fs:
                tests[b.idx] = (fs[-1], b.term[3])
    # flag constants OR-ed in: statements `x = BitOr(.., const)` / calls to bitor with a constant operand
    sets = []
    for b in conv.blocks:
        if b.cleanup:
            continue
        for st in b.stmts:
            if st[0] == "a" and st[2][0] == "bin" and st[2][1] in ("BitOr",):
                k = op_const(st[2][3]) or op_const(st[2][2])
                name = (k.get("d", "") if k else "")
                sets.append((b.idx, name, loc_line(st[3])))
    r.analysed = {"field_tests": sorted({v[0] for v in tests.values()}), "flag_sets": len(sets)}
    require(len(tests) >= 3 and len(sets) >= 3, "R-ENC-FLAGS: flag derivation not recognised (tests=%d, sets=%d)" % (len(tests), len(sets)))
    EXPECT = {"MIN_WIDTH": "min_width", "PRECISION": "precision", "FILL_CHARACTER": "fill_character",
              "REPRESENTATION": "representation"}
    for bb, name, line in sets:
        flag = next((k for k in EXPECT if k in name), None)
        if flag is None:
            continue
        r.instances += 1
        r.nontrivial += 1
        governing = sorted({fld for tb, (fld, some) in tests.items() if some == bb or cfg.dominates(some, bb)})
        ok = governing == [EXPECT[flag]]
        if not ok:
            r.add(Finding("R-ENC-FLAGS", conv.qual, flag, f"the {flag} bit is set under tests of {governing} (expected only "
                          f"{EXPECT[flag]}): the flags byte and the operands the compiler appends after StringPush can "
                          f"disagree, and the decoder then mis-reads the following bytes", conv.file, line))
        r.sample({"flag": flag, "set_under_tests_of": governing, "ok": ok})
    return r


# ---------------------------------------------------------------------------------------------
# R-VARINT (C01, C05): the continuation flag of a var-int byte never enters the decoded value

def rule_varint(cx, tier):
    r = RuleResult("R-VARINT", "var-ints are written as 7 value bits plus the continuation flag 0x80 per byte (push_var_u32); the "
                               "instruction reader therefore masks every byte with 0x7f before it ORs it into the value -- an "
                               "unmasked byte forces bit 7 (or 14, 21 ..) of every multi-byte value on, so constants with an "
                               "index in 256..383 (512..639, ..) are read from the wrong slot")
    from ..facts import loc_macros, loc_line
    grammar, arms, fn = reader_grammar(cx)
    du = cx.du(fn)
    # writer side: push_var_u32 masks with 0x7f and sets 0x80
    wfn = cx.need_fn(COMP + "push_var_u32")
    wmask = any(st[0] == "a" and st[2][0] == "bin" and st[2][1] == "BitAnd" and 127 in (op_int(st[2][2]), op_int(st[2][3]))
                for b in wfn.blocks if not b.cleanup for st in b.stmts)
    wflag = any(st[0] == "a" and st[2][0] == "bin" and st[2][1] == "BitOr" and 128 in (op_int(st[2][2]), op_int(st[2][3]))
                for b in wfn.blocks if not b.cleanup for st in b.stmts)
    require(wmask and wflag, "R-VARINT: push_var_u32 no longer writes 7 value bits + 0x80 per byte (encoding changed: re-read "
                             "the rule)")
    ors = []
    for b in fn.blocks:
        if b.cleanup:
            continue
        for st in b.stmts:
            if st[0] == "a" and st[2][0] == "bin" and st[2][1] == "BitOr" and len(st) > 3 and \
                    any("get_var_u32" in m for m in loc_macros(st[3])):
                ors.append((b.idx, st))
    acc = {st[1][0] for _, st in ors if not st[1][1]}

    def masked(op, depth=0):
        """the operand is an accumulator, a constant, or bottoms out in `x & 0x7f` (through shifts and casts)"""
        if op[0] == "k":
            return True
        l = op_base(op)
        for _ in range(10):
            if l is None:
                return False
            if l in acc:
                return True
            ds = du.full_defs(l)
            if len(ds) != 1 or ds[0][2] != "assign":
                # a mutable local: all its definitions
                return bool(ds) and all(d[2] == "assign" and _rv_masked(d[3], depth) for d in ds) and depth < 6
            rv = ds[0][3]
            if rv[0] == "bin":
                if rv[1] == "BitAnd" and 127 in (op_int(rv[2]), op_int(rv[3])):
                    return True
                if rv[1] in ("Shl", "ShlUnchecked", "BitOr"):
                    if rv[1] == "BitOr":
                        return masked(rv[2], depth + 1) and masked(rv[3], depth + 1)
                    l = op_base(rv[2])
                    continue
                return False
            if rv[0] in ("use", "cast"):
                o = rv[1] if rv[0] == "use" else rv[2]
                if o[0] == "k":
                    return True
                pl = op_place(o)
                if pl is not None and pl[1] and [p for p in pl[1] if p != "*"]:
                    # field `.0` of a checked shift / add result
                    l = pl[0]
                    continue
                l = op_base(o)
                continue
            return False
        return False

    def _rv_masked(rv, depth):
        if rv[0] == "use":
            return masked(rv[1], depth + 1)
        if rv[0] == "cast":
            return masked(rv[2], depth + 1)
        if rv[0] == "bin":
            if rv[1] == "BitAnd" and 127 in (op_int(rv[2]), op_int(rv[3])):
                return True
            if rv[1] == "BitOr":
                return masked(rv[2], depth + 1) and masked(rv[3], depth + 1)
            if rv[1] in ("Shl", "ShlUnchecked"):
                return masked(rv[2], depth + 1)
        return False
    n = 0
    for bb, st in ors:
        for o in (st[2][2], st[2][3]):
            n += 1
            r.instances += 1
            r.nontrivial += 1
            ok = masked(o)
            if not ok:
                r.add(Finding("R-VARINT", fn.qual, "unmasked-byte",
                              "a byte is ORed into a var-int value without being masked with 0x7f: its continuation flag "
                              "(0x80) becomes bit 7 of the decoded value", fn.file, loc_line(st[3])))
    # initial values of the accumulators
    for l in acc:
        for d in du.full_defs(l):
            if d[2] == "assign" and not (d[3][0] == "bin" and d[3][1] == "BitOr"):
                n += 1
                r.instances += 1
                r.nontrivial += 1
                if not _rv_masked(d[3], 0) and not (d[3][0] == "use" and d[3][1][0] == "k"):
                    r.add(Finding("R-VARINT", fn.qual, "unmasked-first-byte",
                                  "the initial value of a var-int accumulator is a byte that was not masked with 0x7f",
                                  fn.file, loc_line(d[4]) if d[4] is not None else fn.line))
    r.analysed = {"or_sites_in_var_int_decoders": len(ors), "operands_checked": n}
    r.floor("BitOr sites in the reader's var-int decoders", len(ors), 2)
    return r
