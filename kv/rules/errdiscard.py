"""R-ERR-DISCARD (C04, C08): the error of a run that re-entered the interpreter is never thrown away.

A `Result<_, koto_runtime::Error>` that comes back from a call which can re-enter the interpreter loop (it reaches
`execute_instructions` in the call graph: overloaded operators, `@display`, callbacks, iterators) carries whatever
the script raised there: a thrown value, a runtime error -- or a timeout.  If the caller looks only at the
discriminant and then reports an error of its own (`Err(_) => runtime_error!("failed to ..")`), or turns the
Result into an Option (`.ok()`, `unwrap_or..`), then
  * a thrown value reaches `catch` as some other text (C04: the handler gets the wrong value, typed catches see a
    String), and
  * a timeout comes back as an ordinary, catchable error (C08: `catch` swallows the timeout).
The rule is a def-use census: for every such Result local, the error payload must travel on -- the local is moved as
a whole (returned, `?`, `map_err`, pushed into an output), or its `Err` payload is read.
"""
from ..engine import Finding, RuleResult
from ..mir import op_place, rv_places

RUNTIME_ERR = ("koto_runtime::error::Error", "error::Error")
# callees that take the Result by value and drop its error
DISCARDING = ("Result::<T, E>::ok", "result::Result::ok", "Result::<T, E>::unwrap_or", "Result::<T, E>::unwrap_or_default",
              "Result::<T, E>::unwrap_or_else", "Result::<T, E>::is_ok_and", "Result::<T, E>::map_or")
# by-reference inspections that say nothing about where the error goes
INSPECT = ("is_ok", "is_err", "as_ref", "as_mut")


def _is_runtime_result(fn, local):
    t = fn.local_tstr(local)
    if not (t.startswith("std::result::Result<") or t.startswith("core::result::Result<")):
        return False
    # last generic argument is the error type
    depth = 0
    last = 0
    for i, ch in enumerate(t):
        if ch in "<([":
            depth += 1
        elif ch in ">)]":
            depth -= 1
        elif ch == "," and depth == 1:
            last = i
    err = t[last + 1:-1].strip()
    return err in RUNTIME_ERR or err.endswith("koto_runtime::error::Error") or err == "Error"


def _uses(fn, local):
    """classify every use of `local`: returns (whole_moves, err_reads, discarding_calls, ref_locals)"""
    whole, err_reads, discards, refs = [], [], [], []
    calls = {c.bb: c for c in fn.calls()}
    for b in fn.blocks:
        if b.cleanup:
            continue
        for st in b.stmts:
            if st[0] != "a":
                continue
            rv = st[2]
            for pl in rv_places(rv):
                if pl[0] != local:
                    continue
                proj = pl[1]
                if not proj:
                    if rv[0] in ("ref", "rawptr"):
                        refs.append((st[1][0], b.idx))
                    elif rv[0] == "discr":
                        pass
                    else:
                        whole.append(("assign", b.idx))
                else:
                    v = [p for p in proj if isinstance(p, list) and p[0] == "v"]
                    if v and str(v[0][1]) in ("Err", "1"):
                        err_reads.append(b.idx)
        c = calls.get(b.idx)
        if c is not None:
            for a in c.args:
                pl = op_place(a)
                if pl is None or pl[0] != local:
                    continue
                if not pl[1]:
                    nm = (c.pretty or c.resolved or c.callee or "")
                    if any(nm.endswith(d) or d in nm for d in DISCARDING):
                        discards.append((nm, c.line))
                    else:
                        whole.append(("call:" + nm, b.idx))
                else:
                    v = [p for p in pl[1] if isinstance(p, list) and p[0] == "v"]
                    if v and str(v[0][1]) in ("Err", "1"):
                        err_reads.append(b.idx)
    return whole, err_reads, discards, refs


def rule_err_discard(cx, tier):
    r = RuleResult("R-ERR-DISCARD",
                   "a Result<_, runtime Error> returned by a call that can re-enter the interpreter loop is passed on as a "
                   "whole or has its Err payload read: it is never reduced to its discriminant (`Err(_) => <another "
                   "error>`, `.ok()`, `unwrap_or..`), which would hand a thrown value to `catch` as unrelated text and "
                   "turn a timeout into an ordinary catchable error")
    F = cx.F
    cg = cx.cg
    loop = [f.name for f in F.fns.values() if f.qual == "koto_runtime::KotoVm::execute_instructions"]
    if not loop:
        from ..engine import Broken
        raise Broken("R-ERR-DISCARD: KotoVm::execute_instructions not found")
    reent = cg.reach_set(set(loop))
    n = 0
    fns = 0
    for fn in F.fns.values():
        if fn.crate.uname != "koto_runtime" or fn.derived:
            continue
        if "/tests/" in (fn.file or "") or (fn.file or "").startswith("crates/runtime/tests"):
            continue
        seen_fn = False
        if not _is_runtime_result(fn, 0):
            continue               # no channel to pass an error on (Display impls, host-side rendering): not a subject
        for c in fn.calls():
            if fn.blocks[c.bb].cleanup:
                continue
            d = c.dest
            if d[1] or d[0] == 0:
                continue           # written into a field / straight into the return place: travels on
            if not _is_runtime_result(fn, d[0]):
                continue
            tg = [t for t in cg.targets(c) if t in F.fns]
            if not any(t in reent for t in tg):
                continue
            n += 1
            r.instances += 1
            seen_fn = True
            whole, err_reads, discards, refs = _uses(fn, d[0])
            # a reference handed to something other than is_ok / is_err / as_ref may read the error
            ref_escapes = False
            for rl, _bb in refs:
                w2, e2, _d2, _r2 = _uses(fn, rl)
                for kind, _b in w2:
                    if kind.startswith("call:") and not any(kind.endswith("::" + i) or kind.endswith(i) for i in INSPECT):
                        ref_escapes = True
                    if kind == "assign":
                        ref_escapes = True
                if e2:
                    ref_escapes = True
            passed_on = bool(whole) or bool(err_reads) or ref_escapes
            if discards or not passed_on:
                r.nontrivial += 1
            callee = (c.pretty or c.resolved or c.callee or "?")
            r.sample({"fn": cx.label(fn), "call": callee, "line": c.line, "moved_whole": len(whole),
                      "err_payload_reads": len(err_reads), "discarding_calls": [x[0] for x in discards]})
            slot = callee.split("<")[0].split("::")[-1] if "::" in callee else callee
            if discards:
                r.add(Finding("R-ERR-DISCARD", cx.label(fn), f"{slot}:{discards[0][0].split('::')[-1]}",
                              f"the Result of {callee} (can re-enter the interpreter) is turned into an Option/default by "
                              f"{discards[0][0]} at line {discards[0][1]}: a thrown value or a timeout raised inside is lost",
                              fn.file, c.line))
            elif not passed_on:
                r.add(Finding("R-ERR-DISCARD", cx.label(fn), f"{slot}:discriminant-only",
                              f"the Result of {callee} (can re-enter the interpreter) is only tested for Ok/Err and then "
                              f"dropped: the error that the script raised inside (a thrown value, a timeout) is replaced or "
                              f"ignored, so `catch` sees unrelated text and a timeout becomes catchable",
                              fn.file, c.line))
        if seen_fn:
            fns += 1
    r.analysed = {"functions_with_reentrant_results": fns, "reentrant_result_locals": n}
    r.floor("Result locals of re-entrant calls in koto_runtime", n, 40)
    return r
