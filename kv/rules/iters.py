"""Iterator rules: R-ITER-COPY, R-ITER-ERR, R-ITER-LAZY (C13, C04)."""
from ..engine import Broken, Finding, RuleResult, require
from ..mir import line_of, op_base, op_local, op_place, place_fields
from ..typestate import Explorer

KITER = "koto_runtime::types::iterator::KIterator"
KVALUE = "koto_runtime::types::value::KValue"
OUTPUT = "koto_runtime::types::iterator::KIteratorOutput"


def _contains_adt(crate, ty, target, stop, depth=0):
    """does the type contain ADT `target` when walked through generic arguments, stopping at ADTs in `stop`"""
    if depth > 6:
        return False
    t = crate.types[ty]
    k = t["k"]
    if k in ("adt",):
        name = crate.defs[t["d"]]
        if name == target:
            return True
        if name in stop:
            return False
        return any(_contains_adt(crate, a, target, stop, depth + 1) for a in t.get("a", []))
    if k in ("ref", "refmut", "ptr", "ptrmut", "slice", "array", "tuple"):
        return any(_contains_adt(crate, a, target, stop, depth + 1) for a in t.get("a", []))
    return False


def handle_fields(cx, adt_name):
    """fields of a struct that hold iterator handles (KIterator directly or inside Option/Vec/VecDeque/tuples);
    yielded values (KValue) are shared by design and stop the walk"""
    a = cx.F.adts.get(adt_name)
    if not a or a["kind"] != "struct":
        return []
    c = a["crate"]
    out = []
    for f in a["variants"][0]["fields"]:
        if _contains_adt(c, f[1], KITER, {KVALUE}):
            out.append(f[0])
    return out


def _self_adt(cx, fn):
    im = cx.F.impls.get(fn.impl) if fn.impl else None
    if im is None:
        return None
    c = im["crate"]
    t = c.types[im["self"]]
    while t["k"] in ("ref", "refmut"):
        t = c.types[t["a"][0]]
    if t["k"] != "adt":
        return None
    return c.defs[t["d"]]


def rule_iter_copy(cx, tier):
    r = RuleResult("R-ITER-COPY", "a copied iterator owns copied inner iterators: every make_copy()/copy()/deep_copy() "
                                  "of a type with iterator-handle fields copies each handle with KIterator::make_copy, "
                                  "never with Clone (which shares the cursor)")
    insts = []
    for fn in cx.F.fns.values():
        if fn.kind == "Closure" or not fn.impl:
            continue
        im = cx.F.impls.get(fn.impl)
        if im is None or im["trait"] is None:
            continue
        tr = im["trait"].rsplit("::", 1)[-1]
        if (tr == "KotoIterator" and fn.method == "make_copy") or (tr == "KotoCopy" and fn.method in ("copy", "deep_copy")):
            insts.append((fn, tr))
    n_mc = len([1 for f, t in insts if t == "KotoIterator"])
    r.analysed = {"make_copy_impls": n_mc, "koto_copy_impls": len(insts) - n_mc}
    r.floor("KotoIterator::make_copy implementations", n_mc, 30)
    for fn, tr in insts:
        adt = _self_adt(cx, fn)
        if adt is None:
            continue
        hf = handle_fields(cx, adt)
        r.instances += 1
        if not hf:
            continue
        r.nontrivial += 1
        verdicts = _copy_verdict(cx, fn, adt, hf)
        label = fn.qual
        for f, (v, why, line) in verdicts.items():
            if v == "shared":
                r.add(Finding("R-ITER-COPY", label, f, f"the copy shares the iterator handle `{f}` with the original "
                              f"({why}): advancing one advances the other", fn.file, line or fn.line,
                              [f"{fn.file}:{line or fn.line} {why}"]))
            elif v == "undecided":
                r.undecided.append(f"{label}.{f}: {why}")
        r.sample({"fn": label, "self": adt.rsplit("::", 1)[-1], "handle_fields": hf,
                  "verdicts": {f: v[0] for f, v in verdicts.items()}}, limit=30)
    return r


def _copy_verdict(cx, fn, adt, hf):
    """per handle field: ('copied'|'shared'|'undecided', reason, line)"""
    du = cx.du(fn)
    fns = [fn] + cx.F.closures_of(fn)
    out = {}
    # whole-self clone: shares every handle unless Self's Clone is hand-written with make_copy (then undecided)
    whole_clone = None
    for f2 in fns:
        d2 = cx.du(f2)
        for c in f2.calls():
            if c.is_("Clone::clone") and c.args:
                l = op_base(c.args[0])
                root = d2.root(l) if l is not None else None
                arg_ty = f2.crate.types[c.arg_ty(0)]
                inner = f2.crate.types[arg_ty["a"][0]] if arg_ty["k"] in ("ref", "refmut") and arg_ty.get("a") else arg_ty
                if inner["k"] == "adt" and f2.crate.defs[inner["d"]] == adt:
                    tgt = cx.F.fns.get(c.resolved)
                    derived = tgt.derived if tgt is not None else True
                    whole_clone = (c, derived)
    make_copies = []   # (call, fields of arg root)
    clones = []
    for f2 in fns:
        d2 = cx.du(f2)
        for c in f2.calls():
            if not c.args:
                continue
            l = op_base(c.args[0])
            if l is None:
                continue
            fields = place_fields(op_place(c.args[0]))
            root = d2.root(l, through_calls=("Option::as_ref", "ops::deref::Deref::deref"))
            rf = list(root[2]) if root[0] == "field" else []
            allf = set(fields) | set(rf)
            if c.short == "koto_runtime::KIterator::make_copy":
                make_copies.append((c, allf, f2))
            elif c.is_("Clone::clone") and (allf & set(hf)):
                aty = f2.crate.tstr(c.arg_ty(0))
                if "KIterator" in aty:
                    clones.append((c, allf, f2))
    for f in hf:
        mc = [m for m in make_copies if f in m[1]]
        cl = [m for m in clones if f in m[1]]
        if cl:
            c = cl[0][0]
            out[f] = ("shared", f"Clone::clone applied to the `{f}` handle", c.line)
        elif mc:
            out[f] = ("copied", "KIterator::make_copy", mc[0][0].line)
        elif whole_clone is not None and whole_clone[1]:
            c = whole_clone[0]
            out[f] = ("shared", "derived Clone of the whole struct copies the KIterator handle, not the iterator", c.line)
        elif whole_clone is not None:
            out[f] = ("undecided", "hand-written Clone of Self", whole_clone[0].line)
        elif any(m[2] is not fn for m in make_copies):
            # make_copy called inside a closure over a collection of handles (iter().map(|i| i.make_copy()))
            out[f] = ("copied", "KIterator::make_copy in a closure over the collection", make_copies[0][0].line)
        else:
            out[f] = ("undecided", "no make_copy and no clone of this field found", None)
    return out


# ---------------------------------------------------------------------------------------------
# R-ITER-ERR

DISCARDING = ("Iterator::nth", "Iterator::last", "Iterator::count", "Iterator::advance_by", "Iterator::skip",
              "Iterator::step_by", "DoubleEndedIterator::nth_back", "DoubleEndedIterator::advance_back_by")
INSPECT_ONLY = ("Option::is_some", "Option::is_none", "Option::is_some_and", "Option::is_none_or", "mem::drop",
                "Option::as_ref", "Option::as_mut", "Option::iter")


def _is_output_ty(crate, ty):
    """KIteratorOutput or Option<KIteratorOutput> (not behind a reference)"""
    t = crate.types[ty]
    if t["k"] != "adt":
        return False
    name = crate.defs[t["d"]]
    if name == OUTPUT:
        return True
    if name.endswith("option::Option") and t.get("a"):
        t2 = crate.types[t["a"][0]]
        return t2["k"] == "adt" and crate.defs[t2["d"]] == OUTPUT
    return False


def _is_kiter_recv(crate, ty):
    """is the receiver type (through references) KIterator or a dyn KotoIterator"""
    t = crate.types[ty]
    d = 0
    while t["k"] in ("ref", "refmut") and d < 3:
        t = crate.types[t["a"][0]]
        d += 1
    if t["k"] == "adt" and crate.defs[t["d"]] == KITER:
        return True
    if t["k"] == "dyn" and t.get("d") is not None and crate.defs[t["d"]].endswith("KotoIterator"):
        return True
    return False


def rule_iter_err(cx, tier):
    r = RuleResult("R-ITER-ERR", "no iterator output that may carry an error is dropped: every KIteratorOutput obtained "
                                 "from an inner iterator is forwarded whole or has its Error payload extracted; "
                                 "std consumers that discard items (nth, last, count, skip, step_by …) are not applied "
                                 "to a KIterator")
    n_src = 0
    n_fn = 0
    for fn in cx.F.fns.values():
        if fn.crate.uname in ("koto_test_utils", "koto_derive") or fn.derived:
            continue
        crate = fn.crate
        sources = []   # (local, description, line)
        for c in fn.calls():
            if c.dest[1]:
                continue
            if c.dest[0] != 0 and _is_output_ty(crate, fn.local_ty(c.dest[0])):
                # the value comes from another iterator (not constructed here): callee returns an output
                if c.is_("Option::map", "Option::or_else", "Option::and_then", "Option::or", "Option::take",
                         "Option::filter", "Option::xor", "Option::unwrap_or", "Option::unwrap_or_else",
                         "Clone::clone", "Option::cloned", "Option::flatten", "Try::branch", "Into::into", "From::from",
                         "Option::replace", "mem::take", "mem::replace", "Option::inspect"):
                    continue
                sources.append((c.dest[0], f"result of {c.short}", c.line))
            if c.is_(*DISCARDING) and c.args and _is_kiter_recv(crate, c.arg_ty(0)):
                n_src += 1
                r.instances += 1
                r.nontrivial += 1
                r.add(Finding("R-ITER-ERR", cx.label(fn), f"discard:{c.short.rsplit('::', 1)[-1]}",
                              f"{c.short} on a KIterator discards the skipped outputs without looking at them: an error "
                              f"raised while producing a skipped element vanishes", fn.file, c.line,
                              [f"{fn.file}:{c.line} {c.short}"]))
        if fn.kind == "Closure":
            first = 2
        else:
            first = 1
        for l in range(first, fn.argc + 1):
            if _is_output_ty(crate, fn.local_ty(l)):
                sources.append((l, f"parameter {fn.local_name(l) or l}", fn.line))
        if not sources:
            continue
        n_fn += 1
        for l, desc, line in sources:
            n_src += 1
            r.instances += 1
            r.nontrivial += 1
            ev = _output_evidence(cx, fn, l)
            if ev is None:
                r.add(Finding("R-ITER-ERR", cx.label(fn), f"dropped:{desc.replace(' ', '_')}",
                              f"the iterator output ({desc}) is neither forwarded nor examined for Output::Error "
                              f"anywhere in the function: an error it carries is silently dropped", fn.file, line,
                              [f"{fn.file}:{line} {desc}"]))
            r.sample({"fn": cx.label(fn), "source": desc, "line": line, "evidence": ev or "none"}, limit=25)
    r.analysed = {"functions_with_outputs": n_fn, "output_sources": n_src}
    r.floor("iterator output sources", n_src, 45)
    return r


PASS_THROUGH = ("Option::map", "Try::branch", "Option::or", "Option::filter", "Option::inspect", "Into::into", "From::from")


def _output_evidence(cx, fn, src):
    """how the output held in `src` (or an alias) is handled: 'forwarded:…' / 'error-extracted' / None"""
    crate = fn.crate
    aliases = {src}
    refs = set()
    passed = set()
    changed = True
    evidence = None

    def base_ok(place):
        # projections that keep us inside the same output value: Some payload, field 0, deref
        for p in place[1]:
            if p == "*":
                continue
            if isinstance(p, list) and p[0] == "v" and p[1] in ("Some", "Continue", "Break"):
                continue
            if isinstance(p, list) and p[0] == "f":
                continue
            return False
        return True

    def has_error_proj(place):
        return any(isinstance(p, list) and p[0] == "v" and p[1] == "Error" for p in place[1])

    while changed:
        changed = False
        for b in fn.blocks:
            if b.cleanup:
                continue
            for st in b.stmts:
                if st[0] != "a":
                    continue
                lhs, rv = st[1], st[2]
                places = []
                if rv[0] == "use" and rv[1][0] in ("c", "m"):
                    places = [rv[1][1]]
                elif rv[0] in ("ref", "rawptr"):
                    places = [rv[2]]
                for pl in places:
                    if pl[0] in aliases and base_ok(pl) and not lhs[1] and lhs[0] != 0:
                        lt = crate.types[fn.local_ty(lhs[0])]
                        s = lt["s"]
                        if ("KIteratorOutput" in s or "Output" in s) and lhs[0] not in aliases:
                            aliases.add(lhs[0])
                            changed = True
        for c in fn.calls():
            if c.is_("Option::take", "Option::as_ref", "Option::as_mut", "mem::take", "Clone::clone", "Option::cloned",
                     "mem::replace") and c.args:
                a0 = op_base(c.args[0])
                if a0 in aliases and not c.dest[1] and c.dest[0] not in aliases and c.dest[0] != 0:
                    aliases.add(c.dest[0])
                    changed = True
            # wrappers whose result is still (an Option / ControlFlow of) the same output: the value lives on in the result
            if c.is_(*PASS_THROUGH) and c.args and not c.dest[1] and c.dest[0] != 0 and c.dest[0] not in aliases:
                a0 = op_base(c.args[0])
                if a0 in aliases and (_is_output_ty(crate, fn.local_ty(c.dest[0])) or
                                      "KIteratorOutput" in crate.tstr(fn.local_ty(c.dest[0]))):
                    aliases.add(c.dest[0])
                    passed.add(c.bb)
                    changed = True
    for b in fn.blocks:
        if b.cleanup:
            continue
        for st in b.stmts:
            if st[0] != "a":
                continue
            lhs, rv = st[1], st[2]
            from ..mir import rv_places
            for pl in rv_places(rv):
                if pl[0] in aliases and has_error_proj(pl) and rv[0] != "discr":
                    return "error-extracted"
            # forwarded whole
            if rv[0] == "use" and rv[1][0] in ("c", "m"):
                pl = rv[1][1]
                if pl[0] in aliases and base_ok(pl) and (lhs[0] == 0 or lhs[1]):
                    evidence = evidence or "forwarded:returned/stored"
            if rv[0] == "agg":
                for o in rv[2]:
                    pl = op_place(o)
                    if pl is not None and pl[0] in aliases and base_ok(pl):
                        evidence = evidence or "forwarded:aggregate"
    for c in fn.calls():
        for i, a in enumerate(c.args):
            pl = op_place(a)
            if pl is None or pl[0] not in aliases or not base_ok(pl):
                continue
            if c.is_(*INSPECT_ONLY) or c.is_("Option::take", "Clone::clone", "Option::cloned", "mem::take", "mem::replace"):
                continue
            if c.bb in passed:
                continue        # the output continues in the wrapper's result, which is followed as an alias
            aty = crate.types[c.arg_ty(i)]
            if aty["k"] in ("ref", "refmut") and c.resolved not in cx.F.fns and not c.cb and not c.cl:
                continue
            evidence = evidence or f"forwarded:{c.short}"
        if c.dest[0] in aliases and c.dest[1]:
            pass
    # a call that defines an alias directly into _0 (tail call) is a forward
    return evidence


# ---------------------------------------------------------------------------------------------
# R-ITER-LAZY

def rule_iter_lazy(cx, tier):
    r = RuleResult("R-ITER-LAZY", "building an iterator adaptor pulls nothing from its source: constructors of "
                                  "KotoIterator types (new / with_*) cannot reach KIterator::next / next_back")
    pulls = set()
    for fn in cx.F.fns.values():
        if fn.qual in ("koto_runtime::<KIterator as Iterator>::next", "koto_runtime::KIterator::next_back"):
            pulls.add(fn.name)
    require(len(pulls) == 2, "R-ITER-LAZY: KIterator::next / next_back not found")
    reach_pull = cx.cg.reach_set(pulls)
    # types implementing KotoIterator in the core library's iterator modules
    iter_types = set()
    for im in cx.F.impls.values():
        if im["trait"] and im["trait"].endswith("::KotoIterator") and "make_copy" in im["items"]:
            c = im["crate"]
            t = c.types[im["self"]]
            if t["k"] == "adt":
                iter_types.add(c.defs[t["d"]])
    ctors = []
    for fn in cx.F.fns.values():
        if fn.kind == "Closure" or not fn.impl:
            continue
        im = cx.F.impls.get(fn.impl)
        if im is None or im["trait"] is not None:
            continue
        adt = _self_adt(cx, fn)
        if adt in iter_types and (fn.method == "new" or fn.method.startswith("with_") or fn.method.startswith("from_")):
            if "core_lib::iterator" in fn.name or "core_lib::string::iterators" in fn.name or "step_to" in fn.name:
                ctors.append(fn)
    r.analysed = {"iterator_types": len(iter_types), "constructors": len(ctors)}
    r.floor("adaptor constructors", len(ctors), 15)
    for fn in ctors:
        r.instances += 1
        r.nontrivial += 1
        if fn.name in reach_pull:
            p = cx.cg.path(fn.name, pulls)
            r.add(Finding("R-ITER-LAZY", fn.qual, "pulls", "constructing the adaptor can already pull elements from "
                          "the source iterator: " + " -> ".join(cx.F.fns[x].qual.rsplit("::", 2)[-2] + "::" + cx.F.fns[x].method for x in (p or [])[:6]),
                          fn.file, fn.line, [cx.F.fns[x].qual for x in (p or [])]))
        r.sample({"ctor": fn.qual, "reaches_next": fn.name in reach_pull}, limit=10)
    return r


# ---------------------------------------------------------------------------------------------
# R-PULL-ONE

def _taint_from(fn, start):
    """locals that (flow-insensitively) derive from `start` through assignments and call arguments"""
    from ..mir import rv_places
    t = {start}
    changed = True
    calls = fn.calls()
    while changed:
        changed = False
        for b in fn.blocks:
            if b.cleanup:
                continue
            for st in b.stmts:
                if st[0] != "a" or st[1][0] in t:
                    continue
                if any(p[0] in t for p in rv_places(st[2])):
                    t.add(st[1][0])
                    changed = True
        for c in calls:
            if c.dest[0] in t:
                continue
            if any(op_place(a) is not None and op_place(a)[0] in t for a in c.args):
                t.add(c.dest[0])
                changed = True
    return t


def rule_pull_one(cx, tier):
    """R-PULL-ONE: an adaptor with two sources decides on the first source's output before it pulls from the second."""
    from .narrow import Sym
    r = RuleResult("R-PULL-ONE",
                   "in `next` / `next_back` of an iterator adaptor that pulls from two different inner iterators (zip, chain, "
                   "flatten, ...), every path from a pull of one source to a pull of the other passes a test of what the "
                   "first pull produced: no element is taken from a source whose partner has already ended")
    subjects = 0
    pairs = 0
    for fn in cx.F.crate_fns("koto_runtime"):
        if fn.kind == "Closure" or fn.method not in ("next", "next_back"):
            continue
        if "core_lib::iterator" not in fn.name and "core_lib::string::iterators" not in fn.name:
            continue
        sym = Sym(cx, fn)
        pulls = []
        for c in fn.calls():
            last = (c.short or "").rsplit("::", 1)[-1]
            if last not in ("next", "next_back") or not c.args:
                continue
            if not _is_kiter_recv(fn.crate, c.arg_ty(0)):
                continue
            p = op_place(c.args[0])
            if p is None:
                continue
            # the field of self the receiver is (a binding of), also through named locals (`if let Some(a) = &mut self.a`)
            from .common import self_field_root
            fs = self_field_root(cx.du(fn), p[0])
            if not fs and p[0] == 1:
                fs = place_fields(p)
            if not fs:
                name = sym.canon(p[0], [])
                fs = name.split(".")[1:] if name.startswith(("self.", "arg1.")) else None
            if not fs:
                continue
            pulls.append((fs[0], c))
        fields = {f for f, _ in pulls}
        if len(fields) < 2:
            continue
        subjects += 1
        cfg = cx.cfg(fn)
        for (f1, c1) in pulls:
            taint = _taint_from(fn, c1.dest[0])
            tests = {b.idx for b in fn.blocks if not b.cleanup and b.term[0] == "switch" and
                     op_base(b.term[1]) in taint}
            after = cfg.reachable_after(c1.bb, avoid=tests)
            for (f2, c2) in pulls:
                if f2 == f1:
                    continue
                if c2.bb not in cfg.reachable_after(c1.bb):
                    continue
                pairs += 1
                r.instances += 1
                r.nontrivial += 1
                ok = c2.bb not in after
                r.sample({"fn": fn.qual, "first": f1, "then": f2, "tested_between": ok})
                if not ok:
                    r.add(Finding("R-PULL-ONE", fn.qual, f"{f1}-then-{f2}:untested",
                                  f"`self.{f2}` is pulled after `self.{f1}` on a path that never looks at what `self.{f1}` "
                                  f"produced: when `{f1}` has ended, an element of `{f2}` is consumed and lost",
                                  fn.file, c2.line))
    r.floor("two-source adaptor methods", subjects, 2)
    r.floor("ordered pull pairs", pairs, 2)
    r.analysed = {"two_source_methods": subjects, "pull_pairs": pairs}
    return r
