"""Objects and metakeys: R-METAKEY-TABLES, R-DISPATCH-REFS, R-DISPATCH-ORDER, R-OBJ-DEFAULTS (C17)."""
import re

from ..engine import Broken, Finding, RuleResult, require
from ..mir import op_base, op_local, op_place

VM = "koto_runtime::KotoVm::"
BINOP = "koto_runtime::types::meta_map::BinaryOp"
UNOP = "koto_runtime::types::meta_map::UnaryOp"


def camel(s):
    return "".join(p.capitalize() for p in s.split("_"))


def _last(s):
    return s.strip().rsplit("::", 1)[-1].strip()


# ---------------------------------------------------------------------------------------------
# R-METAKEY-TABLES

def rule_metakey_tables(cx, tier):
    r = RuleResult("R-METAKEY-TABLES", "the metakey tables are total and name-preserving end to end: @-spelling -> "
                                       "MetaKeyId (parser), MetaKeyId -> MetaKey (runtime, no wildcard arm)")
    ids = cx.F.adts.get("koto_parser::node::MetaKeyId")
    require(ids is not None, "R-METAKEY-TABLES: MetaKeyId not found")
    id_names = [v["name"] for v in ids["variants"]]
    # (1) parser table
    pfn = cx.need_fn("koto_parser::Parser::parse_meta_key")
    produced = {}
    for m in cx.F.hir_matches.get(pfn.name, []):
        rhs = "consume_next_token_on_same_line" in m["scrut"]
        for pat, guard, line, body in m["arms"]:
            b = body.strip()
            mm = re.match(r"^MetaKeyId::(\w+)$", b) or re.search(r"MetaKeyId::(\w+)\s*}?\s*$", b)
            if not mm:
                continue
            key = mm.group(1)
            p = pat.strip()
            tok = re.match(r'^Some\(Token::(\w+)\)$', p)
            st = re.match(r'^"(\w+)"$', p)
            produced.setdefault(key, []).append((p, rhs, line))
            r.instances += 1
            r.nontrivial += 1
            if tok and tok.group(1) != "Id":
                want = tok.group(1) + ("Rhs" if rhs and key.endswith("Rhs") else "")
                if key != want and not (rhs and key in ("Test", "Named")):
                    r.add(Finding("R-METAKEY-TABLES", pfn.qual, f"@{'r' if rhs else ''}{tok.group(1)}",
                                  f"the parser maps the operator token {tok.group(1)}{' after @r' if rhs else ''} to "
                                  f"MetaKeyId::{key} (expected MetaKeyId::{want})", pfn.file, line))
            elif st:
                want = camel(st.group(1))
                special = {"meta": "Named"}
                if key != special.get(st.group(1), want):
                    r.add(Finding("R-METAKEY-TABLES", pfn.qual, "@" + st.group(1), f'the parser maps "@{st.group(1)}" to '
                                  f"MetaKeyId::{key} (expected MetaKeyId::{special.get(st.group(1), want)})", pfn.file, line))
    require(len(produced) >= 30, f"R-METAKEY-TABLES: only {len(produced)} MetaKeyId values produced by parse_meta_key")
    # totality is read off the MIR (arms with block bodies are not rendered in the HIR arm list)
    built = _variants_built(pfn, cx, "koto_parser::node::MetaKeyId")
    for n in id_names:
        if n == "Invalid":
            continue
        r.instances += 1
        r.nontrivial += 1
        if n not in produced and n not in built:
            r.add(Finding("R-METAKEY-TABLES", pfn.qual, "unreachable:" + n, f"no spelling is parsed to MetaKeyId::{n}: "
                          f"the metakey cannot be written in a program", pfn.file, pfn.line))
    # (2) runtime table
    rfn = cx.need_fn("koto_runtime::types::meta_map::meta_id_to_key")
    best = None
    for m in cx.F.hir_matches.get(rfn.name, []):
        if best is None or len(m["arms"]) > len(best["arms"]):
            best = m
    require(best is not None and len(best["arms"]) >= 30, "R-METAKEY-TABLES: the match in meta_id_to_key was not found")
    seen = set()
    for pat, guard, line, body in best["arms"]:
        p = pat.strip()
        r.instances += 1
        r.nontrivial += 1
        if p == "_" or re.match(r"^[a-z_]\w*$", p):
            r.add(Finding("R-METAKEY-TABLES", rfn.qual, "wildcard", "meta_id_to_key has a wildcard arm: a new MetaKeyId "
                          "would silently map to whatever the wildcard produces", rfn.file, line))
            continue
        idn = _last(p)
        seen.add(idn)
        if idn in ("Invalid", "Named", "Test"):
            continue
        b = body.strip()
        mm = re.match(r"^MetaKey::(\w+)(?:\((\w+)\))?$", b)
        if not mm:
            r.undecided.append(f"meta_id_to_key arm {idn}: body not understood: {b[:40]}")
            continue
        target = mm.group(2) or mm.group(1)
        if target != idn:
            r.add(Finding("R-METAKEY-TABLES", rfn.qual, idn, f"MetaKeyId::{idn} is converted to {b} (name not preserved): "
                          f"`@{idn}` entries are stored under another operation's key", rfn.file, line))
    for n in id_names:
        if n not in seen:
            r.add(Finding("R-METAKEY-TABLES", rfn.qual, "missing:" + n, f"meta_id_to_key has no arm for MetaKeyId::{n}",
                          rfn.file, rfn.line))
    r.analysed = {"meta_key_ids": len(id_names), "parser_spellings": sum(len(v) for v in produced.values()),
                  "runtime_arms": len(best["arms"])}
    return r


# ---------------------------------------------------------------------------------------------
# R-DISPATCH-REFS / R-DISPATCH-ORDER

ARITH = {"add": "Add", "subtract": "Sub", "multiply": "Mul", "divide": "Div", "remainder": "Rem", "power": "pow"}
COMPARE = ("less", "less_or_equal", "greater", "greater_or_equal", "equal", "not_equal")
# documented derivations: missing !=, <=, >, >= are derived from @== / @<
DERIVED_FROM = {"less_or_equal": {"Less", "Equal"}, "greater": {"Less", "Equal"}, "greater_or_equal": {"Less"},
                "not_equal": {"Equal"}, "less": set(), "equal": set()}


def _variants_built(fn, cx, adt):
    out = set()
    for f in [fn] + cx.F.closures_of(fn):
        c = f.crate
        for b in f.blocks:
            if b.cleanup:
                continue
            for st in b.stmts:
                if st[0] == "a" and st[2][0] == "agg" and st[2][1][0] == "adt" and c.defs[st[2][1][1]] == adt:
                    out.add(st[2][1][2])
    return out


def _object_methods_called(fn, cx):
    out = set()
    for f in [fn] + cx.F.closures_of(fn):
        for c in f.calls():
            if c.callee and c.callee.startswith("koto_runtime::types::object::KotoObject::"):
                out.add(c.callee.rsplit("::", 1)[-1])
    return out


def rule_dispatch_refs(cx, tier):
    r = RuleResult("R-DISPATCH-REFS", "each operator function consults only its own metakeys and object methods: run_<op> "
                                      "references BinaryOp::{Op, OpRhs} and KotoObject::{op, op_rhs}; run_<op>_assign "
                                      "references {OpAssign}; comparisons reference their own key plus the documented "
                                      "derivation keys (@== / @<); the (Number, Number) arm applies the operator's own "
                                      "KNumber operation")
    n = 0
    for op, tr in ARITH.items():
        for suffix in ("", "_assign"):
            fn = cx.F.fn(VM + "run_" + op + suffix)
            if fn is None:
                r.undecided.append(f"run_{op}{suffix} not found")
                continue
            n += 1
            r.instances += 1
            r.nontrivial += 1
            C = camel(op)
            allowed_keys = {C + "Assign"} if suffix else {C, C + "Rhs"}
            allowed_methods = {op + "_assign"} if suffix else {op, op + "_rhs"}
            keys = _variants_built(fn, cx, BINOP)
            methods = {m for m in _object_methods_called(fn, cx) if m not in ("type_string", "copy", "deep_copy")}
            bad_k = sorted(keys - allowed_keys)
            bad_m = sorted(methods - allowed_methods)
            if bad_k:
                r.add(Finding("R-DISPATCH-REFS", fn.qual, "key:" + ",".join(bad_k), f"run_{op}{suffix} references "
                              f"BinaryOp::{bad_k[0]}: the operator consults another operation's metakey", fn.file, fn.line))
            if bad_m:
                r.add(Finding("R-DISPATCH-REFS", fn.qual, "method:" + ",".join(bad_m), f"run_{op}{suffix} calls "
                              f"KotoObject::{bad_m[0]}: host objects receive another operation's call", fn.file, fn.line))
            if not (keys & allowed_keys):
                r.add(Finding("R-DISPATCH-REFS", fn.qual, "key:none", f"run_{op}{suffix} references none of "
                              f"{sorted(allowed_keys)}", fn.file, fn.line))
            # the number operation
            numops = set()

            def number_ops_of(f, depth=0):
                for c in f.calls():
                    t = cx.F.fns.get(c.resolved)
                    if t is not None and t.impl_self in ("KNumber", "&KNumber") and t.impl_trait in ("Add", "Sub", "Mul", "Div", "Rem"):
                        numops.add(t.impl_trait)
                    elif t is not None and t.qual == "koto_runtime::KNumber::pow":
                        numops.add("pow")
                    elif t is not None and depth == 0 and t.crate.uname == "koto_runtime" and t.vis != "pub" and \
                            not t.qual.startswith(VM) and t.kind != "Closure" and \
                            any("KNumber" in (t.local_tstr(i) or "") for i in range(0, t.argc + 1)):
                        number_ops_of(t, 1)      # a private helper on numbers (`number_remainder(a, b)`)
            for f in [fn] + cx.F.closures_of(fn):
                number_ops_of(f)
            if numops != {tr}:
                r.add(Finding("R-DISPATCH-REFS", fn.qual, "number-op:" + ",".join(sorted(numops)) , f"the number arm of "
                              f"run_{op}{suffix} applies {sorted(numops)} instead of {tr}", fn.file, fn.line))
            r.sample({"fn": fn.qual, "keys": sorted(keys), "object_methods": sorted(methods), "number_op": sorted(numops)}, limit=14)
    for op in COMPARE:
        fn = cx.F.fn(VM + "run_" + op)
        if fn is None:
            r.undecided.append(f"run_{op} not found")
            continue
        n += 1
        r.instances += 1
        r.nontrivial += 1
        C = camel(op)
        allowed_keys = {C} | DERIVED_FROM[op]
        keys = _variants_built(fn, cx, BINOP)
        bad_k = sorted(keys - allowed_keys)
        if bad_k:
            r.add(Finding("R-DISPATCH-REFS", fn.qual, "key:" + ",".join(bad_k), f"run_{op} references BinaryOp::{bad_k[0]}, "
                          f"which is neither its own key nor a documented derivation source (@==, @<)", fn.file, fn.line))
        if C not in keys:
            r.add(Finding("R-DISPATCH-REFS", fn.qual, "key:none", f"run_{op} never consults @{op}", fn.file, fn.line))
        methods = {m for m in _object_methods_called(fn, cx) if m not in ("type_string", "copy", "deep_copy")}
        allowed_m = {op} | {x.lower() if x in ("Less", "Equal") else x for x in DERIVED_FROM[op]}
        bad_m = sorted(m for m in methods if m not in allowed_m and m not in ("less", "equal"))
        if bad_m:
            r.add(Finding("R-DISPATCH-REFS", fn.qual, "method:" + ",".join(bad_m), f"run_{op} calls KotoObject::{bad_m[0]}",
                          fn.file, fn.line))
        r.sample({"fn": fn.qual, "keys": sorted(keys), "object_methods": sorted(methods)}, limit=14)
    r.analysed = {"operator_functions": n}
    r.floor("operator functions", n, 12)
    return r


CANON = ["lhs_map", "lhs_object", "rhs_map", "rhs_object", "fallback"]


def _classify_arm(pat, guard):
    p = re.sub(r"\s+", "", pat)
    g = guard or ""
    if re.match(r"^\(Map\(\w+\),_\)$", p) and "contains_meta_key" in g:
        return "lhs_map"
    if re.match(r"^\(Object\(\w+\),_\)$", p):
        return "lhs_object"
    if re.match(r"^\(_,Map\(\w+\)\)$", p) and "contains_meta_key" in g:
        return "rhs_map"
    if re.match(r"^\(_,Object\(\w+\)\)$", p):
        return "rhs_object"
    if p == "_" or re.match(r"^\(_,_\)$", p):
        return "fallback"
    return "extra"


def rule_dispatch_order(cx, tier):
    r = RuleResult("R-DISPATCH-ORDER", "arithmetic dispatch follows the documented priority: built-in operands; the left "
                                       "operand's metamap entry; a left host object; the right operand's @r… entry; a right "
                                       "host object; error — with the lhs-map arm guarded by the operator's own key and the "
                                       "rhs-map arm by its …Rhs key")
    n = 0
    for op in ARITH:
        fn = cx.F.fn(VM + "run_" + op)
        if fn is None:
            continue
        ms = [m for m in cx.F.hir_matches.get(fn.name, []) if "lhs_value" in m["scrut"] and "rhs_value" in m["scrut"]
              and m["scrut"].strip().startswith("(")]
        if not ms:
            r.undecided.append(f"run_{op}: dispatch match not found")
            continue
        m = max(ms, key=lambda x: len(x["arms"]))
        n += 1
        r.instances += 1
        r.nontrivial += 1
        kinds = [_classify_arm(a[0], a[1]) for a in m["arms"]]
        seq = [k for k in kinds if k != "extra"]
        C = camel(op)
        if seq != CANON:
            r.add(Finding("R-DISPATCH-ORDER", fn.qual, "order", f"dispatch arms of run_{op} are ordered {seq}, expected "
                          f"{CANON}", fn.file, m["line"]))
        # (type-specific arms such as `(Map, Map)` for `+` may legitimately follow the metamap arms: a plain map
        # union must not pre-empt an overloaded operator; only the relative order of the canonical arms is fixed)
        for a, k in zip(m["arms"], kinds):
            g = a[1] or ""
            if k == "lhs_map" and not re.search(r"&\s*%s\b(?!Rhs)" % C, g) and (C + ".into()") not in g.replace(" ", ""):
                r.add(Finding("R-DISPATCH-ORDER", fn.qual, "lhs-key", f"the left-operand metamap arm of run_{op} is guarded "
                              f"by `{g[:60]}` (expected a test for {C})", fn.file, a[2]))
            if k == "rhs_map" and (C + "Rhs") not in g:
                r.add(Finding("R-DISPATCH-ORDER", fn.qual, "rhs-key", f"the right-operand metamap arm of run_{op} is "
                              f"guarded by `{g[:60]}` (expected a test for {C}Rhs)", fn.file, a[2]))
        r.sample({"fn": fn.qual, "arms": kinds}, limit=8)
    r.analysed = {"dispatch_matches": n}
    r.floor("arithmetic dispatch matches", n, 4)
    return r


# ---------------------------------------------------------------------------------------------
# R-OBJ-DEFAULTS

DERIVED_COMPARISONS = {"less_or_equal", "greater", "greater_or_equal", "not_equal"}
# provided methods whose default is a neutral value by design (one line each)
NEUTRAL_DEFAULTS = {
    "display": "default display prints the type name",
    "debug": "defaults to display",
    "serialize": "reports 'serialization not supported' through its own error",
    "call_instance": "forwards to call",
}


def rule_obj_defaults(cx, tier):
    r = RuleResult("R-OBJ-DEFAULTS", "every operation a host object does not implement is reported as an error: each "
                                     "provided method of KotoObject that returns a Result calls unimplemented_error, or is "
                                     "one of the comparisons derived from less / equal")
    tr = cx.F.traits.get("koto_runtime::types::object::KotoObject")
    require(tr is not None, "R-OBJ-DEFAULTS: trait KotoObject not found")
    n = 0
    for name, d, has_default in tr["items"]:
        if not has_default:
            continue
        fn = cx.F.fns.get(d)
        if fn is None:
            continue
        rt = fn.crate.tstr(fn.local_ty(0))
        if "Result<" not in rt:
            continue
        n += 1
        r.instances += 1
        r.nontrivial += 1
        calls_unimpl = any(c.short.endswith("unimplemented_error") for c in fn.calls())
        trait_calls = {c.callee.rsplit("::", 1)[-1] for c in fn.calls()
                       if c.callee and c.callee.startswith("koto_runtime::types::object::KotoObject::")}
        verdict = "unimplemented"
        if calls_unimpl and not (name in DERIVED_COMPARISONS):
            pass
        elif name in DERIVED_COMPARISONS:
            verdict = "derived"
            if not (trait_calls & {"less", "equal"}):
                verdict = "violation"
                r.add(Finding("R-OBJ-DEFAULTS", fn.qual, "derive", f"the default {name} is documented as derived from "
                              f"less / equal but calls {sorted(trait_calls)}", fn.file, fn.line))
        elif name in NEUTRAL_DEFAULTS:
            verdict = "neutral: " + NEUTRAL_DEFAULTS[name]
        elif trait_calls:
            verdict = "forwards to " + ",".join(sorted(trait_calls))
        else:
            verdict = "violation"
            r.add(Finding("R-OBJ-DEFAULTS", fn.qual, "default", f"the default implementation of KotoObject::{name} "
                          f"returns without reporting the operation as unimplemented: objects that do not implement it "
                          f"silently succeed", fn.file, fn.line))
        r.sample({"method": name, "verdict": verdict}, limit=40)
    r.analysed = {"provided_result_methods": n}
    r.floor("provided KotoObject methods returning Result", n, 18)
    return r


# ---------------------------------------------------------------------------------------------
# R-DISPATCH-OPERANDS: a metamap function looked up under `@r<op>` runs with the right operand as its instance

def rule_dispatch_operands(cx, tier):
    r = RuleResult("R-DISPATCH-OPERANDS", "documented operands: a function found under the operator's own metakey is called "
                                          "with (left, right); a function found under the `@r…` key is called with the right "
                                          "operand as instance and the left operand as argument")
    from .common import operand_agg
    n = 0
    for fn in cx.F.fns.values():
        if not fn.qual.startswith(VM + "run_") or fn.kind == "Closure":
            continue
        du = cx.du(fn)
        # parameter locals named lhs / rhs
        params = {fn.local_name(l): l for l in range(1, fn.argc + 1)}
        if "lhs" not in params or "rhs" not in params:
            continue

        def side(op, depth=0):
            """'lhs' / 'rhs' / None: which register parameter the value comes from (through clones / copies)"""
            l = op_base(op)
            for _ in range(12):
                if l is None:
                    return None
                d = du.single_def(l)
                if d is None:
                    return None
                if d[2] == "call":
                    c = d[3]
                    if c.short in (VM + "get_register", VM + "clone_register") and len(c.args) > 1:
                        a = op_base(c.args[1])
                        if a == params["lhs"] or (a is not None and du.root(a) == ("arg", params["lhs"])):
                            return "lhs"
                        if a == params["rhs"] or (a is not None and du.root(a) == ("arg", params["rhs"])):
                            return "rhs"
                        return None
                    if c.is_("Clone::clone", "Deref::deref", "Into::into", "From::from") and c.args:
                        l = op_base(c.args[0])
                        continue
                    return None
                rv = d[3]
                if rv[0] == "use":
                    l = op_base(rv[1])
                elif rv[0] in ("ref",):
                    l = rv[2][0]
                else:
                    return None
            return None

        for c in fn.calls():
            if c.short != VM + "call_overridden_op_2" or len(c.args) < 5:
                continue
            # the function value: get_meta_value(m, &key)
            l = op_base(c.args[4])
            key = None
            for _ in range(8):
                if l is None:
                    break
                d = du.single_def(l)
                if d is None:
                    break
                if d[2] == "call":
                    cc = d[3]
                    if cc.short.endswith("::get_meta_value") and len(cc.args) > 1:
                        kl = op_base(cc.args[1])
                        kr = du.root(kl) if kl is not None else None
                        if kr and kr[0] == "call" and kr[1].args:
                            ag = operand_agg(du, kr[1].args[0])
                            if ag:
                                key = ag[1]
                        break
                    if cc.is_("Option::unwrap", "Try::branch", "Clone::clone") and cc.args:
                        l = op_base(cc.args[0])
                        continue
                    break
                rv = d[3]
                if rv[0] == "use":
                    l = op_base(rv[1])
                else:
                    break
            if key is None:
                continue
            n += 1
            r.instances += 1
            r.nontrivial += 1
            inst, arg = side(c.args[2]), side(c.args[3])
            want = ("rhs", "lhs") if key.endswith("Rhs") else ("lhs", "rhs")
            ok = (inst, arg) == want
            if inst is None or arg is None:
                r.undecided.append(f"{fn.qual}:{c.line} operands of the @{key} call could not be traced")
            elif not ok:
                r.add(Finding("R-DISPATCH-OPERANDS", fn.qual, f"{key}:{inst},{arg}", f"the function stored under "
                              f"BinaryOp::{key} is called with instance = {inst} operand and argument = {arg} operand "
                              f"(documented: {want[0]}, {want[1]})", fn.file, c.line))
            r.sample({"fn": fn.qual, "key": key, "instance": inst, "argument": arg, "line": c.line}, limit=10)
    r.analysed = {"metamap_operator_calls": n}
    r.floor("metamap operator calls with a traced key", n, 9)
    return r


# ---------------------------------------------------------------------------------------------
# R-BASE-WALK

MAP_LOOKUPS = ("get", "get_meta_value", "contains_meta_key", "meta_map", "contains_key")


def _origin(o):
    return o[1] if o[0] == "field" else o


def rule_base_walk(cx, tier):
    """R-BASE-WALK: a loop that climbs a map's `@base` chain looks things up in the map it has climbed to."""
    r = RuleResult("R-BASE-WALK",
                   "in a loop that re-assigns a map / value variable from the result of `KMap::get_meta_value` (the climb "
                   "along `@base`), every KMap lookup inside the loop (`get`, `get_meta_value`, `contains_meta_key`, "
                   "`meta_map`) is made on the climbing variable, not on a map that does not change in the loop")
    MAPI = "koto_runtime::KMap::"
    loops_found = 0
    lookups_found = 0
    for fn in cx.F.crate_fns("koto_runtime"):
        calls = fn.calls()
        if not any(c.short == MAPI + "get_meta_value" for c in calls):
            continue
        cfg = cx.cfg(fn)
        du = cx.du(fn)
        loops = {}
        for (t, h) in cfg.back_edges():
            loops.setdefault(h, set()).update(cfg.natural_loop(t, h))
        for head, body in loops.items():
            # climbing variables: several full definitions, one of them inside the loop from a get_meta_value result
            walkers = set()
            for l, defs in du.defs.items():
                full = [d for d in defs if d[2] in ("assign", "call")]
                if len(full) < 2:
                    continue
                ts = fn.local_tstr(l) or ""
                if "KMap" not in ts and "KValue" not in ts:
                    continue
                for d in full:
                    if d[0] not in body or d[2] != "assign" or d[3][0] != "use":
                        continue
                    src = op_base(d[3][1])
                    if src is None:
                        continue
                    o = _origin(du.root(src))
                    for _ in range(4):
                        if o[0] == "call" and o[1].is_("Option::unwrap", "Option::expect", "Try::branch") and o[1].args \
                                and op_base(o[1].args[0]) is not None:
                            o = _origin(du.root(op_base(o[1].args[0])))
                        else:
                            break
                    if o[0] == "call" and o[1].short == MAPI + "get_meta_value":
                        walkers.add(l)
            if not walkers:
                continue
            loops_found += 1
            names = sorted(fn.local_name(w) or f"_{w}" for w in walkers)
            for c in calls:
                if c.bb not in body or not c.short.startswith(MAPI) or c.short[len(MAPI):] not in MAP_LOOKUPS or not c.args:
                    continue
                recv = op_base(c.args[0])
                if recv is None:
                    continue
                lookups_found += 1
                r.instances += 1
                r.nontrivial += 1
                o = _origin(du.root(recv))
                on = o[1] if o[0] in ("multi", "arg") else None
                ok = on in walkers
                rname = (fn.local_name(on) if on is not None else None) or (f"arg{on}" if o[0] == "arg" else None)
                if rname is None:
                    from .narrow import Sym
                    rname = Sym(cx, fn).canon(recv).split(".")[0]
                r.sample({"fn": fn.qual.rsplit("::", 1)[-1], "lookup": c.short[len(MAPI):], "line": c.line, "on": rname,
                          "climbing": names})
                if not ok:
                    # a receiver that is itself only defined inside the loop from a climbing variable is fine
                    r.add(Finding("R-BASE-WALK", fn.qual, f"{c.short[len(MAPI):]}:on-{rname}",
                                  f"inside the loop that climbs the `@base` chain through `{', '.join(names)}`, "
                                  f"`{c.short[len(MAPI):]}` is called on `{rname}`, which the loop never advances: every "
                                  f"step of the climb repeats the lookup in the same map", fn.file, c.line))
    r.floor("@base climbing loops", loops_found, 2)
    r.floor("map lookups inside them", lookups_found, 4)
    r.analysed = {"loops": loops_found, "lookups": lookups_found}
    return r
