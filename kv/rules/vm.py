"""VM state-restoration, timeout and import rules (C04, C07, C08, C18)."""
from ..engine import Broken, Finding, RuleResult, require
from ..mir import line_of, op_base, op_const, op_int, op_local, op_place, place_fields
from .common import always_err, calls_named, rv_variant, self_field_root, try_sites

VM = "koto_runtime::KotoVm::"
DEREF = ("ops::deref::Deref::deref", "ops::deref::DerefMut::deref_mut", "Deref>::deref", "DerefMut>::deref_mut")


def vm_methods(cx):
    return [f for f in cx.F.fns.values() if f.qual.startswith(VM) and f.kind != "Closure"]


# ---------------------------------------------------------------------------------------------
# R-REGS

GROW = ("Vec::push", "Vec::extend_from_slice", "Vec::resize", "<Vec as Extend>::extend", "Vec::insert",
        "Vec::extend_from_within", "Vec::append", "Vec::resize_with")


def _receiver_is_self_field(cx, fn, call, field):
    if not call.args:
        return False
    l = op_base(call.args[0])
    if l is None:
        return False
    p = op_place(call.args[0])
    fs = place_fields(p)
    if field in fs and l == 1:
        return True
    r = self_field_root(cx.du(fn), l)
    return r is not None and field in r


def growth_calls(cx, fn):
    return [c for c in fn.calls() if c.is_(*GROW) and _receiver_is_self_field(cx, fn, c, "registers")]


def _direct_truncates(cx, fn):
    out = []
    for c in fn.calls():
        if c.short == VM + "truncate_registers":
            out.append(c)
        elif c.is_("Vec::truncate", "Vec::clear", "Vec::drain", "Vec::split_off") and _receiver_is_self_field(cx, fn, c, "registers"):
            out.append(c)
    return out


def _exempt_breaks(cx, fn):
    """error edges of `pop_frame(..)?`: its only error is EmptyCallStack, an internal fault (C05's subject)."""
    out = set()
    for ts in try_sites(cx, fn):
        if ts.producer is not None and ts.producer.short == VM + "pop_frame" and ts.break_bb is not None:
            out.add(ts.break_bb)
    return out


def trunc_summaries(cx):
    """KotoVm methods that truncate the register stack on every path to a return (modulo exempt edges)."""
    fns = vm_methods(cx)
    trunc = set()
    changed = True
    while changed:
        changed = False
        for fn in fns:
            if fn.name in trunc:
                continue
            tb = {c.bb for c in _direct_truncates(cx, fn)}
            tb |= {c.bb for c in fn.calls() if c.resolved in trunc}
            if not tb:
                continue
            cfg = cx.cfg(fn)
            avoid = tb | _exempt_breaks(cx, fn)
            if 0 in avoid:
                trunc.add(fn.name)
                changed = True
                continue
            reach = cfg.reachable({0}, avoid)
            if not any(b in reach for b in cfg.exits):
                trunc.add(fn.name)
                changed = True
    return trunc


def rule_regs(cx, tier):
    r = RuleResult("R-REGS", "host-facing KotoVm entry points that grow the register stack shrink it again on "
                             "every exit, including every `?` error exit")
    fns = vm_methods(cx)
    growing = {f.name: growth_calls(cx, f) for f in fns}
    growing = {k: v for k, v in growing.items() if v}
    pub = {f.name for f in fns if f.vis == "pub"}
    inst = []
    for f in fns:
        if f.name not in growing:
            continue
        if f.name in pub:
            inst.append(f)
            continue
        # private: host-facing if every workspace caller is a public KotoVm method that does not grow itself
        callers = [a for a, bs in cx.cg.edges.items() if f.name in bs]
        if callers and all(a in pub and a not in growing for a in callers):
            inst.append(f)
    r.analysed = {"vm_methods": len(fns), "methods_growing_registers": len(growing), "host_facing_growing": len(inst)}
    for needed in ("run", "call_and_run_function", "run_unary_op", "run_binary_op"):
        require(any(f.qual == VM + needed for f in inst), f"R-REGS: anchor {VM}{needed} is no longer a growing host-facing entry")
    r.floor("host-facing growing entries", len(inst), 4)
    trunc = trunc_summaries(cx)
    for fn in inst:
        cfg = cx.cfg(fn)
        tb = {c.bb for c in _direct_truncates(cx, fn)} | {c.bb for c in fn.calls() if c.resolved in trunc}
        exempt = _exempt_breaks(cx, fn)
        tsites = try_sites(cx, fn)
        brk = {ts.break_bb: ts for ts in tsites if ts.break_bb is not None}
        avoid = set(tb) | set(exempt)
        gcs = growing[fn.name]
        r.instances += 1
        r.nontrivial += 1
        found = 0
        for _ in range(64):
            path = None
            for g in gcs:
                p = cfg.find_path(g.bb, lambda b: b in cfg.exits, avoid)
                if p is not None:
                    path = [g.bb] + p
                    break
            if path is None:
                break
            found += 1
            # name the escaping exit: the last `?` break block or explicit return on the path
            slot = None
            esc_bb = None
            for b in path:
                if b in brk:
                    ts = brk[b]
                    slot = "?:" + (ts.producer.short.rsplit("::", 1)[-1] if ts.producer else "expr")
                    esc_bb = b
            if slot is None:
                # an explicit `return` (or fallthrough): name the last call on the path
                last_call = None
                for b in path:
                    c = fn.call_at(b)
                    if c is not None and not c.is_("Try::branch"):
                        last_call = c
                        esc_bb = b
                slot = "return:" + (last_call.short.rsplit("::", 1)[-1] if last_call else "fallthrough")
            line = line_of(fn, esc_bb) if esc_bb is not None else fn.line
            steps = [f"bb{b} {fn.file}:{line_of(fn, b)}" + (f" call {fn.call_at(b).short}" if fn.call_at(b) else "") for b in path]
            r.add(Finding("R-REGS", fn.qual, slot,
                          f"registers pushed at line {gcs[0].line} are not truncated on the exit through `{slot}`",
                          fn.file, line, steps))
            # block this exit and look for further, different exits
            if esc_bb is None or esc_bb in avoid:
                break
            avoid.add(esc_bb)
        # ---- base clause: the length an exit truncates to was read before the first register was pushed
        du = cx.du(fn)
        bases_checked = 0
        for c in fn.calls():
            if c.short != VM + "truncate_registers" or len(c.args) < 2:
                continue
            l = op_base(c.args[1])
            root = du.root(l, through_calls=("Try::branch", "Result::<T, E>::unwrap", "Clone::clone")) if l is not None else None
            for _ in range(4):
                # through tuples built and taken apart again: `let (a, b) = (x?, y)`
                if root is not None and root[0] == "field" and root[1][0] == "rv" and root[1][1][0] == "agg" \
                        and root[1][1][1][0] == "tuple" and root[2] and str(root[2][0]).isdigit() \
                        and int(root[2][0]) < len(root[1][1][2]):
                    l2 = op_base(root[1][1][2][int(root[2][0])])
                    root = du.root(l2, through_calls=("Try::branch", "Result::<T, E>::unwrap", "Clone::clone")) if l2 is not None else None
                else:
                    break
            if root is None:
                continue
            if root[0] == "field":
                root = root[1]
            if root[0] != "call":
                continue
            bc = root[1]
            if bc.bb not in cfg.reach:
                continue
            bases_checked += 1
            r.instances += 1
            earlier = [g for g in gcs if g.bb != bc.bb and bc.bb in cfg.reachable_after(g.bb) and not cfg.dominates(bc.bb, g.bb)]
            if earlier:
                r.nontrivial += 1
                r.add(Finding("R-REGS", fn.qual, f"base:{bc.short.rsplit('::', 1)[-1]}@{c.short.rsplit('::', 1)[-1]}:inner",
                              f"the exit at line {c.line} truncates the register stack to a base read at line {bc.line}, "
                              f"after registers had already been pushed (line {earlier[0].line}): those registers stay on the "
                              f"stack of the runtime after the failed call", fn.file, c.line))
        r.sample({"fn": fn.qual, "growth_sites": len(gcs), "truncate_sites": len(tb), "escaping_exits": found,
                  "truncation_bases_checked": bases_checked, "at": fn.where()})
    return r


# ---------------------------------------------------------------------------------------------
# R-FRAMES

FRAMES_EXCEPTIONS = {
    # generator resume: the VM is private to the generator and is dropped/reset by its owner
    VM + "continue_running": "generator resume owns a private VM; errors end the generator",
}


def nested_entry_wrappers(cx):
    """KotoVm methods that hand their caller the Result of a nested `execute_instructions()` run unchanged (the value
    written to the return place was moved there from the call's result): `run_frame_behind_barrier`-style helpers. A call
    of such a wrapper is a nested interpreter entry for the caller. Fixpoint over wrappers of wrappers."""
    cached = getattr(cx, "_nested_entry_wrappers", None)
    if cached is not None:
        return cached
    entry = {VM + "execute_instructions", cx.need_fn(VM + "execute_instructions").qual}
    changed = True
    while changed:
        changed = False
        for fn in cx.F.fns.values():
            if fn.crate.uname != "koto_runtime" or fn.derived or not fn.qual.startswith(VM) or fn.qual in entry:
                continue
            if "Result<" not in (fn.local_tstr(0) or "") or "KValue" not in (fn.local_tstr(0) or ""):
                continue
            for c in fn.calls():
                if c.short not in entry:
                    continue
                derived = {c.dest[0]}
                grew = True
                while grew:
                    grew = False
                    for b in fn.blocks:
                        if b.cleanup:
                            continue
                        for st in b.stmts:
                            if st[0] == "a" and not st[1][1] and st[1][0] not in derived and st[2][0] == "use":
                                pl = op_place(st[2][1])
                                if pl is not None and not pl[1] and pl[0] in derived:
                                    derived.add(st[1][0])
                                    grew = True
                if 0 in derived:
                    entry.add(fn.qual)
                    changed = True
                    break
    cx._nested_entry_wrappers = entry
    return entry


def thin_entry_wrappers(cx):
    """the wrappers among nested_entry_wrappers that do nothing but the entry protocol (set the barrier, run, pop the frame
    on failure): for their callers a call is indistinguishable from a direct `execute_instructions()`"""
    PROTOCOL = {VM + "frame_mut", VM + "execute_instructions", VM + "pop_frame"}
    out = set()
    for q in nested_entry_wrappers(cx):
        fn = cx.F.fn(q)
        if fn is None or q == VM + "execute_instructions":
            continue
        own = {c.short for c in fn.calls() if c.short.startswith(VM)}
        if own <= PROTOCOL | out:
            out.add(q)
    return out


def rule_frames(cx, tier):
    r = RuleResult("R-FRAMES", "every nested interpreter entry sets the execution barrier first and pops its "
                               "frame on the error outcome before leaving the function")
    sites = []
    for fn in cx.F.fns.values():
        if not fn.crate.uname == "koto_runtime":
            continue
        for c in fn.calls():
            if c.short == VM + "execute_instructions":
                sites.append((fn, c))
    wrappers = nested_entry_wrappers(cx) - {VM + "execute_instructions"}
    via = sum(1 for fn in cx.F.fns.values() if fn.crate.uname == "koto_runtime" for c in fn.calls() if c.short in wrappers)
    r.analysed = {"execute_instructions_call_sites": len(sites), "wrappers": sorted(w[len(VM):] for w in wrappers),
                  "entries_through_wrappers": via}
    # the obligations are checked where execute_instructions is called; callers of a wrapper that returns the run's
    # result inherit them, so they count as (covered) entries
    r.floor("nested interpreter entries (direct + through wrappers)", len(sites) + via, 5)
    for fn, c in sites:
        r.instances += 1
        r.nontrivial += 1
        cfg = cx.cfg(fn)
        label = fn.qual
        if fn.qual in FRAMES_EXCEPTIONS:
            r.sample({"fn": label, "line": c.line, "verdict": "reviewed exception: " + FRAMES_EXCEPTIONS[fn.qual]})
            continue
        # (i) dominated by `frame_mut().execution_barrier = true`
        barrier_blocks = set()
        for b in fn.blocks:
            if b.cleanup:
                continue
            for st in b.stmts:
                if st[0] == "a" and "execution_barrier" in place_fields(st[1]) and st[2][0] == "use" and op_int(st[2][1]) == 1:
                    barrier_blocks.add(b.idx)
        dominated = any(cfg.dominates(bb, c.bb) for bb in barrier_blocks)
        if not dominated:
            r.add(Finding("R-FRAMES", label, "barrier", "nested execute_instructions() is not dominated by "
                          "`frame_mut().execution_barrier = true`", fn.file, c.line,
                          [f"call at {fn.file}:{c.line}", f"barrier assignments in blocks {sorted(barrier_blocks)}"]))
        # (ii) error outcome pops the frame
        res = op_base(["c", c.dest])
        err_targets = _err_edges(cx, fn, cfg, c)
        if err_targets is None:
            r.add(Finding("R-FRAMES", label, "result", "result of nested execute_instructions() is not inspected "
                          "(no is_err()/match on it): a failing nested run would leave its frame on the call stack",
                          fn.file, c.line, [f"call at {fn.file}:{c.line}"]))
            continue
        pops = {x.bb for x in fn.calls() if x.short == VM + "pop_frame"}
        bad = None
        for t in err_targets:
            if t in pops:
                continue
            p = cfg.find_path(t, lambda b: b in cfg.exits, pops, include_src_succs=False)
            if p is not None:
                bad = p
                break
        if bad is not None:
            r.add(Finding("R-FRAMES", label, "pop_frame", "error outcome of nested execute_instructions() can leave "
                          "the function without pop_frame()", fn.file, c.line,
                          [f"bb{b} {fn.file}:{line_of(fn, b)}" for b in bad]))
        r.sample({"fn": label, "line": c.line, "barrier_dominates": dominated, "err_edges": sorted(err_targets),
                  "pop_frame_blocks": sorted(pops), "verdict": "ok" if (dominated and bad is None) else "violation"})
    return r


def _err_edges(cx, fn, cfg, call):
    """Blocks entered exactly when the Result produced by `call` is Err: via `is_err()`/`is_ok()` tests or a
    switch on its discriminant. None if the result is never tested."""
    dest = call.dest[0]
    out = set()
    tested = False
    # is_err / is_ok
    for c in fn.calls():
        if c.is_("Result::is_err", "Result::is_ok") and c.args:
            l = op_base(c.args[0])
            if l is None:
                continue
            root = cx.du(fn).root(l)
            # &dest
            src = None
            d = cx.du(fn).single_def(l)
            if d and d[2] == "assign" and d[3][0] == "ref":
                src = d[3][2][0]
            if src != dest:
                continue
            flag = c.dest[0]
            # find the switch on the flag
            b = c.target
            hops = 0
            while b is not None and hops < 3:
                t = fn.blocks[b].term
                if t[0] == "switch" and op_base(t[1]) == flag:
                    tested = True
                    zero_t = [bb for v, bb in t[2] if v == 0]
                    other = t[3]
                    if c.is_("Result::is_err"):
                        out.add(other)
                    else:
                        out.update(zero_t)
                    break
                s = fn.succs(b)
                b = s[0] if len(s) == 1 else None
                hops += 1
    # match on discriminant: only the first switch(es) reached from the call count (later discriminant reads
    # are drop elaboration, whose Err edge is infeasible once the Err arm has returned)
    sw = []
    for b in fn.blocks:
        if b.cleanup:
            continue
        for st in b.stmts:
            if st[0] == "a" and st[2][0] == "discr" and st[2][1][0] == dest and not st[2][1][1]:
                t = b.term
                if t[0] == "switch" and op_base(t[1]) == st[1][0]:
                    sw.append(b.idx)
    first = [b for b in sw if not any(o != b and cfg.dominates(o, b) for o in sw)]
    if out:
        first = []  # an is_err()/is_ok() test already decides
    for bi in first:
        t = fn.blocks[bi].term
        tested = True
        for v, bb in t[2]:
            if v == 1:
                out.add(bb)
        if not any(v == 1 for v, _ in t[2]):
            out.add(t[3])
    return out if tested else None


# ---------------------------------------------------------------------------------------------
# R-EXEC-STATE

def rule_exec_state(cx, tier):
    r = RuleResult("R-EXEC-STATE", "on every return path of execute_instructions the last write to "
                                   "execution_state is not Active (the code's own stated belief)")
    fn = cx.need_fn(VM + "execute_instructions")
    cfg = cx.cfg(fn)
    writes = {}  # bb -> variant of the last write in the block
    for b in fn.blocks:
        if b.cleanup:
            continue
        for st in b.stmts:
            if st[0] == "a" and place_fields(st[1])[-1:] == ["execution_state"]:
                v = rv_variant(cx.du(fn), st[2])
                writes[b.idx] = v or "?"
    # a private helper that leaves the state non-Active on every one of its paths (`abort_on_timeout`) is a write
    def state_writes(g):
        out = {}
        for b in g.blocks:
            if b.cleanup:
                continue
            for st in b.stmts:
                if st[0] == "a" and place_fields(st[1])[-1:] == ["execution_state"]:
                    out[b.idx] = rv_variant(cx.du(g), st[2]) or "?"
        return out
    for c in fn.calls():
        if not c.short.startswith(VM) or c.bb in writes:
            continue
        h = cx.F.fn(c.short)
        if h is None or h.vis == "pub" or h is fn:
            continue
        hw = state_writes(h)
        if not hw or any(v == "Active" for v in hw.values()):
            continue
        hcfg = cx.cfg(h)
        if hcfg.find_path(0, lambda b: b in hcfg.exits, set(hw), include_src_succs=True) is None and 0 not in hcfg.exits \
                or 0 in hw:
            writes[c.bb] = "non-Active (in %s)" % h.qual[len(VM):]
    require(any(v == "Active" for v in writes.values()), "R-EXEC-STATE: no write of ExecutionState::Active found")
    r.analysed = {"writes": len(writes), "returns": len(cfg.exits)}
    active_blocks = [b for b, v in writes.items() if v == "Active"]
    other = {b for b, v in writes.items() if v != "Active"}
    r.instances = len(cfg.exits)
    r.nontrivial = len(cfg.exits)
    for ab in active_blocks:
        p = cfg.find_path(ab, lambda b: b in cfg.exits, other)
        if p is not None:
            r.add(Finding("R-EXEC-STATE", fn.qual, "Active", "a return path leaves execution_state == Active",
                          fn.file, line_of(fn, p[-2] if len(p) > 1 else p[-1]),
                          [f"bb{b} {fn.file}:{line_of(fn, b)}" for b in [ab] + p]))
    r.sample({"fn": fn.qual, "state_writes": {f"bb{b}": v for b, v in sorted(writes.items())}})
    return r


# ---------------------------------------------------------------------------------------------
# R-TIMEOUT-POLL / R-TIMEOUT-NOCATCH

def rule_timeout_poll(cx, tier):
    r = RuleResult("R-TIMEOUT-POLL", "inside the interpreter loop the deadline poll dominates every instruction "
                                     "dispatch and no back-edge bypasses it")
    fn = cx.need_fn(VM + "execute_instructions")
    cfg = cx.cfg(fn)
    polls = [c for c in fn.calls() if c.short.endswith("ExecutionTimeout::check_for_timeout")]
    disp = [c for c in fn.calls() if c.short == VM + "execute_instruction"]
    require(polls, "R-TIMEOUT-POLL: no call of ExecutionTimeout::check_for_timeout in execute_instructions")
    require(disp, "R-TIMEOUT-POLL: no call of execute_instruction in execute_instructions")
    r.analysed = {"poll_sites": len(polls), "dispatch_sites": len(disp)}
    # The poll is guarded by `if let Some(timeout) = timeout.as_mut()`: with no limit configured there is nothing
    # to poll.  So the obligation is: every path from loop head to a dispatch passes the *test* of the
    # Option (the switch that decides Some/None), and on the Some edge passes the poll.
    for d in disp:
        r.instances += 1
        r.nontrivial += 1
        # loop containing the dispatch
        loops = [cfg.natural_loop(t, h) for (t, h) in cfg.back_edges()]
        loops = [l for l in loops if d.bb in l]
        if not loops:
            r.add(Finding("R-TIMEOUT-POLL", fn.qual, "loop", "instruction dispatch is not inside a loop",
                          fn.file, d.line))
            continue
        loop = min(loops, key=len)
        heads = [h for (t, h) in cfg.back_edges() if cfg.natural_loop(t, h) == loop] or [min(loop)]
        head = heads[0]
        # the guard: the Option<ExecutionTimeout> discriminant switch whose Some-edge leads to the poll
        guard_bb = None
        for p in polls:
            for b in sorted(cfg.dominators().get(p.bb, ())):
                t = fn.blocks[b].term
                if t[0] == "switch" and b in loop:
                    # the poll must lie on one edge only
                    edges = [bb for _, bb in t[2]] + [t[3]]
                    reach = [p.bb in cfg.reachable({e}, {b}) and cfg.dominates(e, p.bb) for e in edges]
                    if any(reach) and not all(reach):
                        guard_bb = b
        # path from loop head to dispatch that avoids all polls and (if present) is on the Some edge
        avoid = {p.bb for p in polls}
        some_edges = set()
        if guard_bb is not None:
            t = fn.blocks[guard_bb].term
            for e in [bb for _, bb in t[2]] + [t[3]]:
                if any(cfg.dominates(e, p.bb) for p in polls):
                    some_edges.add(e)
        # (a) every path head -> dispatch passes the guard switch (or a poll)
        pa = cfg.find_path(head, lambda b: b == d.bb, avoid | ({guard_bb} if guard_bb is not None else set()),
                           include_src_succs=False)
        if head in avoid or head == guard_bb:
            pa = None
        if pa is not None:
            r.add(Finding("R-TIMEOUT-POLL", fn.qual, "bypass", "a path from the loop head reaches the instruction "
                          "dispatch without testing / polling the execution deadline", fn.file, d.line,
                          [f"bb{b} {fn.file}:{line_of(fn, b)}" for b in pa]))
        # (b) on the Some edge, the poll cannot be skipped
        for e in some_edges:
            pb = cfg.find_path(e, lambda b: b == d.bb, avoid, include_src_succs=False)
            if pb is not None:
                r.add(Finding("R-TIMEOUT-POLL", fn.qual, "skip", "with a deadline configured a path reaches the "
                              "dispatch without calling check_for_timeout()", fn.file, d.line,
                              [f"bb{b} {fn.file}:{line_of(fn, b)}" for b in pb]))
        # (c) the poll's `true` outcome leaves the loop without dispatching
        for p in polls:
            flag = p.dest[0]
            b = p.target
            t = fn.blocks[b].term if b is not None else None
            if t and t[0] == "switch" and op_base(t[1]) == flag:
                true_edge = t[3]
                reach = cfg.reachable({true_edge})
                if d.bb in reach:
                    r.add(Finding("R-TIMEOUT-POLL", fn.qual, "ignored", "after check_for_timeout() returned true the "
                                  "interpreter can still dispatch instructions", fn.file, p.line))
            else:
                r.undecided.append(f"poll result of {fn.qual}:{p.line} is not branched on directly")
        r.sample({"fn": fn.qual, "dispatch_line": d.line, "poll_lines": [p.line for p in polls],
                  "loop_blocks": len(loop), "guard_block": guard_bb})
    # (d) the deadline object that the poll is called on is armed exactly from the configured limit: the
    # Option<ExecutionTimeout> has a single definition, derived from `settings.execution_limit`
    du = cx.du(fn)
    for p in polls:
        r.instances += 1
        r.nontrivial += 1
        holder = _timeout_holder(cx, fn, du, p)
        if holder is None:
            r.undecided.append(f"{fn.qual}:{p.line} could not identify the Option<ExecutionTimeout> the poll reads")
            continue
        defs = du.defs.get(holder, [])
        bad = None
        if not defs and 1 <= holder <= fn.argc:
            # the loop takes its deadline as a parameter: every caller has to arm it from the configured limit
            sites = 0
            for g in cx.F.fns.values():
                if g.crate.uname != "koto_runtime" or g.derived:
                    continue
                for c in g.calls():
                    if c.short != fn.qual or len(c.args) < holder:
                        continue
                    sites += 1
                    a = c.args[holder - 1]
                    gl = op_base(a)
                    gdu = cx.du(g)
                    gd = gdu.single_def(gl) if gl is not None else None
                    for _ in range(4):
                        if gd is not None and gd[2] == "assign" and gd[3][0] == "use" and op_local(gd[3][1]) is not None:
                            gd = gdu.single_def(op_local(gd[3][1]))
                        else:
                            break
                    ok = False
                    if gd is not None and gd[2] == "call" and gd[3].is_("Option::map", "Option::and_then") and gd[3].args:
                        src = gd[3].args[0]
                        fields = place_fields(op_place(src)) if op_place(src) else []
                        rr = gdu.root(op_base(src), through_calls=DEREF) if op_base(src) is not None else None
                        ok = "execution_limit" in fields or bool(rr and rr[0] == "field" and "execution_limit" in rr[2])
                    r.sample({"loop_entry": g.qual, "line": c.line, "deadline_from_execution_limit": ok})
                    if not ok:
                        r.add(Finding("R-TIMEOUT-POLL", g.qual, "arming:" + fn.qual.rsplit("::", 1)[-1],
                                      f"{g.qual.rsplit('::', 1)[-1]} enters the interpreter loop ({fn.qual.rsplit('::', 1)[-1]}) at line "
                                      f"{c.line} with a deadline that is not derived from settings.execution_limit (None / a "
                                      f"constant): code run through this entry is never interrupted although a limit is "
                                      f"configured", g.file, c.line))
            require(sites, f"R-TIMEOUT-POLL: {fn.qual} takes its deadline as a parameter but has no caller")
            continue
        if len(defs) != 1:
            bad = f"the deadline holder `{fn.local_name(holder) or '_%d' % holder}` is assigned in {len(defs)} places"
        else:
            d0 = defs[0]
            ok = False
            if d0[2] == "call" and d0[3].is_("Option::map", "Option::and_then", "Option::as_ref", "Option::copied"):
                src = d0[3].args[0]
                l = op_base(src)
                fields = place_fields(op_place(src)) if op_place(src) else []
                rr = du.root(l, through_calls=DEREF) if l is not None else None
                if "execution_limit" in fields or (rr and rr[0] == "field" and "execution_limit" in rr[2]):
                    ok = True
            if not ok:
                bad = "the deadline holder is not derived from settings.execution_limit by Option::map"
        if bad:
            r.add(Finding("R-TIMEOUT-POLL", fn.qual, "arming", bad + ": some entries of the interpreter loop may run "
                          "without a deadline although a limit is configured", fn.file, p.line))
    return r


def _timeout_holder(cx, fn, du, poll):
    """the Option<ExecutionTimeout> local whose `as_mut()`/pattern yields the receiver of check_for_timeout"""
    l = op_base(poll.args[0]) if poll.args else None
    for _ in range(10):
        if l is None:
            return None
        ts = fn.crate.tstr(fn.local_ty(l))
        if ts.startswith("std::option::Option<") and "ExecutionTimeout" in ts and "&" not in ts:
            return l
        d = du.single_def(l)
        if d is None:
            return None
        if d[2] == "call":
            l = op_base(d[3].args[0]) if d[3].args else None
            continue
        rv = d[3]
        if rv[0] in ("use", "cast"):
            l = op_base(rv[1] if rv[0] == "use" else rv[2])
        elif rv[0] in ("ref", "rawptr"):
            l = rv[2][0]
        else:
            return None
    return None


def rule_timeout_nocatch(cx, tier):
    r = RuleResult("R-TIMEOUT-NOCATCH", "a timeout error is never offered to a catch handler: every "
                                        "pop_call_stack_on_error(error, allow_catch) whose allow_catch can be true "
                                        "excludes ErrorKind::Timeout for that error")
    sites = []
    for fn in vm_methods(cx):
        for c in fn.calls():
            if c.short == VM + "pop_call_stack_on_error":
                sites.append((fn, c))
    require(sites, "R-TIMEOUT-NOCATCH: no call of pop_call_stack_on_error")
    r.floor("pop_call_stack_on_error call sites", len(sites), 1)
    callee = cx.need_fn(VM + "pop_call_stack_on_error")
    callee_guards = _tests_timeout_kind(cx, callee)
    # inside the unwinder: the exit that resumes at a catch handler (the Ok return) must be guarded by a bool
    # parameter (checked per call site below) or by a test of the error kind against Timeout
    ccfg = cx.cfg(callee)
    cdu = cx.du(callee)
    ok_blocks = set()
    for b in callee.blocks:
        if b.cleanup:
            continue
        for st in b.stmts:
            if st[0] == "a" and st[1][0] == 0 and not st[1][1] and rv_variant(cdu, st[2]) == "Ok":
                ok_blocks.add(b.idx)
    require(ok_blocks, "R-TIMEOUT-NOCATCH: pop_call_stack_on_error has no Ok(..) return (catch resumption) any more")
    guard_switches = set()
    td = _timeout_discr(cx)
    for b in callee.blocks:
        if b.cleanup or b.term[0] != "switch":
            continue
        l = op_base(b.term[1])
        if l is None:
            continue
        root = cdu.root(l)
        if root[0] == "arg" and callee.crate.tstr(callee.local_ty(root[1])) == "bool":
            guard_switches.add(b.idx)
        elif root[0] == "rv" and root[1][0] == "discr":
            pl = root[1][1]
            ty = pl[2] if len(pl) > 2 else callee.local_ty(pl[0])
            if callee.crate.tdef(ty) == "koto_runtime::error::ErrorKind" and any(v == td for v, _ in b.term[2]):
                guard_switches.add(b.idx)
    r.instances += 1
    r.nontrivial += 1
    if 0 not in guard_switches:
        p = ccfg.find_path(0, lambda b: b in ok_blocks, guard_switches, include_src_succs=False)
        if p is not None:
            r.add(Finding("R-TIMEOUT-NOCATCH", callee.qual, "unguarded-catch", "the unwinder can resume at a catch "
                          "handler on a path that neither tests an allow-catch parameter nor excludes "
                          "ErrorKind::Timeout: a timeout can be swallowed by a `try` in a calling frame",
                          callee.file, line_of(callee, p[-1]),
                          [f"bb{b} {callee.file}:{line_of(callee, b)}" for b in p]))
    r.sample({"fn": callee.qual, "catch_resumption_blocks": sorted(ok_blocks), "guard_switches": sorted(guard_switches)})
    r.analysed = {"call_sites": len(sites), "callee_tests_timeout_kind": callee_guards}
    for fn, c in sites:
        r.instances += 1
        a = c.args[2] if len(c.args) > 2 else None
        const = op_int(a) if a is not None else None
        if const is None and a is not None:
            l = op_local(a)
            if l is not None:
                root = cx.du(fn).root(l)
                if root[0] == "const":
                    const = root[1].get("i")
        if const == 0:
            r.sample({"fn": fn.qual, "line": c.line, "allow_catch": "const false", "verdict": "ok"})
            continue
        r.nontrivial += 1
        if const == 1:
            # constant true: only acceptable if the callee itself refuses to catch timeouts
            if callee_guards:
                r.sample({"fn": fn.qual, "line": c.line, "allow_catch": "const true", "verdict": "ok: callee excludes Timeout"})
                continue
            r.add(Finding("R-TIMEOUT-NOCATCH", fn.qual, "allow_catch=true",
                          "an arbitrary runtime error (including a Timeout returned by a nested interpreter entry: "
                          "callbacks, generators, overloaded operators) is passed with allow_catch = true and neither "
                          "caller nor callee excludes ErrorKind::Timeout", fn.file, c.line,
                          [f"call at {fn.file}:{c.line}", "nested execute_instructions() arms its own deadline and "
                           "returns Timeout as an ordinary Err to the native caller"]))
            continue
        # computed flag: it must be false whenever the error kind is Timeout
        verdict = "ok" if callee_guards else _flag_vs_timeout(cx, fn, a)
        if verdict == "ok":
            r.sample({"fn": fn.qual, "line": c.line, "allow_catch": "computed from error kind", "verdict": "ok"})
        elif verdict == "wrong":
            r.add(Finding("R-TIMEOUT-NOCATCH", fn.qual, "allow_catch=computed", "the computed allow_catch flag is not "
                          "false on the ErrorKind::Timeout edge: a timeout can be offered to a catch handler",
                          fn.file, c.line))
        else:
            r.undecided.append(f"{fn.qual}:{c.line} allow_catch is computed; could not relate it to ErrorKind::Timeout")
    return r


def _timeout_discr(cx):
    a = cx.F.adts.get("koto_runtime::error::ErrorKind")
    require(a is not None, "R-TIMEOUT-NOCATCH: ErrorKind not found")
    for v in a["variants"]:
        if v["name"] == "Timeout":
            return v["discr"]
    raise Broken("R-TIMEOUT-NOCATCH: ErrorKind::Timeout not found")


def _tests_timeout_kind(cx, fn):
    """does fn branch on `discriminant(ErrorKind) == Timeout` (matches!/match/if let)?"""
    td = _timeout_discr(cx)
    for b in fn.blocks:
        if b.cleanup:
            continue
        for st in b.stmts:
            if st[0] == "a" and st[2][0] == "discr":
                pl = st[2][1]
                ty = pl[2] if len(pl) > 2 else fn.local_ty(pl[0])
                tdef = fn.crate.tdef(ty)
                if tdef == "koto_runtime::error::ErrorKind":
                    t = b.term
                    if t[0] == "switch" and any(v == td for v, _ in t[2]):
                        return True
    return False


def _flag_vs_timeout(cx, fn, operand):
    """'ok' if the bool operand is provably false on the edge where ErrorKind == Timeout, 'wrong' if it is provably
    true there, 'unknown' otherwise.  Recognises `!matches!(e.error, Timeout(_))`, `match`/`if let` forms."""
    du = cx.du(fn)
    cfg = cx.cfg(fn)
    td = _timeout_discr(cx)
    # the switch on the ErrorKind discriminant with a Timeout target
    tblocks = []
    for b in fn.blocks:
        if b.cleanup or b.term[0] != "switch":
            continue
        l = op_base(b.term[1])
        d = du.single_def(l) if l is not None else None
        if d and d[2] == "assign" and d[3][0] == "discr":
            pl = d[3][1]
            ty = pl[2] if len(pl) > 2 else fn.local_ty(pl[0])
            if fn.crate.tdef(ty) == "koto_runtime::error::ErrorKind":
                for v, tb in b.term[2]:
                    if v == td:
                        tblocks.append(tb)
    if not tblocks:
        return "unknown"
    l = op_local(operand)
    neg = False
    for _ in range(8):
        if l is None:
            return "unknown"
        ds = du.full_defs(l)
        if len(ds) == 1 and ds[0][2] == "assign":
            rv = ds[0][3]
            if rv[0] == "un" and rv[1] == "Not":
                neg = not neg
                l = op_local(rv[2])
                continue
            if rv[0] == "use" and rv[1][0] in ("c", "m"):
                l = op_local(rv[1])
                continue
            return "unknown"
        # multi-def: constants assigned in the branches
        seen_timeout = False
        for d in ds:
            if d[2] != "assign" or d[3][0] != "use" or op_int(d[3][1]) is None:
                return "unknown"
            v = bool(op_int(d[3][1])) != neg
            on_timeout = any(d[0] == tb or cfg.dominates(tb, d[0]) for tb in tblocks)
            if on_timeout:
                seen_timeout = True
                if v:
                    return "wrong"
        return "ok" if seen_timeout else "unknown"
    return "unknown"


# ---------------------------------------------------------------------------------------------
# R-CATCH-RESTORE

def rule_catch_restore(cx, tier):
    r = RuleResult("R-CATCH-RESTORE", "resuming at a catch handler restores the sequence/string builder stacks "
                                      "to their depth at try entry and the value stack to the frame's register window: "
                                      "every path from the catch outcome of the unwinder to set_ip() shrinks both builder "
                                      "stacks and resizes self.registers (in execute_instructions, or in the helper it calls "
                                      "on that outcome); TryStart records both builder depths")
    fn = cx.need_fn(VM + "execute_instructions")
    cfg = cx.cfg(fn)
    SHRINK = ("Vec::truncate", "Vec::drain", "Vec::split_off", "Vec::clear")
    unw = [c for c in fn.calls() if c.short == VM + "pop_call_stack_on_error"]
    require(unw, "R-CATCH-RESTORE: no call of pop_call_stack_on_error in execute_instructions")

    def region_facts(g):
        setips = {c.bb for c in g.calls() if c.short == VM + "set_ip"}
        shr = {"sequence_builders": set(), "string_builders": set(), "registers": set()}
        for c in g.calls():
            if c.is_(*SHRINK):
                for fld in ("sequence_builders", "string_builders"):
                    if _receiver_is_self_field(cx, g, c, fld):
                        shr[fld].add(c.bb)
            if c.is_("Vec::resize", "Vec::resize_with") and _receiver_is_self_field(cx, g, c, "registers"):
                shr["registers"].add(c.bb)
        return setips, shr

    def check_region(g, starts, origin_line):
        gcfg = cx.cfg(g)
        setips, shr = region_facts(g)
        for fld in shr:
            r.instances += 1
            r.nontrivial += 1
            bad = None
            for e in starts:
                if e in shr[fld]:
                    continue
                p = gcfg.find_path(e, lambda b: b in setips, shr[fld], include_src_succs=False) if e not in setips else [e]
                if p is not None:
                    bad = p
            r.sample({"field": fld, "in": g.qual[len(VM):], "unwinder_call_line": origin_line, "restored_before_set_ip": bad is None})
            if bad is not None and fld == "registers":
                r.add(Finding("R-CATCH-RESTORE", g.qual, fld,
                              "execution can resume at a catch handler without resizing self.registers to the frame's "
                              "window: the failed instruction may have truncated the value stack (call_koto_function "
                              "truncates before it checks the arguments) or left temporaries behind, and the handler's "
                              "first register write indexes past the stack", g.file, origin_line,
                              [f"bb{b} {g.file}:{line_of(g, b)}" for b in bad]))
            elif bad is not None:
                r.add(Finding("R-CATCH-RESTORE", g.qual, fld,
                              f"execution can resume at a catch handler without shrinking self.{fld}: an error thrown "
                              f"while a {'list/tuple' if fld == 'sequence_builders' else 'string'} is under construction "
                              f"and caught leaves its builder behind", g.file, origin_line,
                              [f"bb{b} {g.file}:{line_of(g, b)}" for b in bad]))

    own_setips, _ = region_facts(fn)
    helpers_used = set()
    for c in unw:
        # the catch outcome: the Ok edge of the result
        ok_edges = set()
        dest = c.dest[0]
        for b in fn.blocks:
            if b.cleanup:
                continue
            for st in b.stmts:
                if st[0] == "a" and st[2][0] == "discr" and st[2][1][0] == dest and not st[2][1][1] and b.term[0] == "switch":
                    for v, tb in b.term[2]:
                        if v == 0:
                            ok_edges.add(tb)
        reach_setip = [e for e in ok_edges if cfg.reachable({e}) & own_setips]
        if reach_setip:
            check_region(fn, reach_setip, c.line)
            continue
        # the resumption may live in a private helper called on the catch outcome
        for e in ok_edges:
            for b in cfg.reachable({e}):
                c2 = fn.call_at(b)
                if c2 is None or not c2.short.startswith(VM):
                    continue
                h = cx.F.fn(c2.short)
                if h is not None and h.vis != "pub" and any(x.short == VM + "set_ip" for x in h.calls()) \
                        and (h.name, c.bb) not in helpers_used:
                    helpers_used.add((h.name, c.bb))
                    check_region(h, [0], c.line)
    r.analysed = {"unwinder_calls": len(unw), "set_ip_sites_in_execute_instructions": len(own_setips),
                  "resumption_helpers": sorted({cx.F.fns[n].qual[len(VM):] for n, _ in helpers_used})}
    require(r.instances >= 3, "R-CATCH-RESTORE: catch resumption path (Ok outcome -> set_ip) not found")
    # TryStart records both depths: the function that pushes onto catch_stack reads both lengths
    ex = cx.need_fn(VM + "execute_instruction")
    lens = set()
    for c in ex.calls():
        if c.is_("Vec::len"):
            for fld in ("sequence_builders", "string_builders"):
                if _receiver_is_self_field(cx, ex, c, fld):
                    lens.add(fld)
    for fld in ("sequence_builders", "string_builders"):
        r.instances += 1
        r.nontrivial += 1
        if fld not in lens:
            r.add(Finding("R-CATCH-RESTORE", ex.qual, "record:" + fld, f"TryStart does not record the depth of "
                          f"self.{fld}, so a catch handler has nothing to restore it to", ex.file, ex.line))
    return r


# ---------------------------------------------------------------------------------------------
# R-IMPORT / R-IMPORT-ONCE

def _cache_guard_calls(cx, fn, mutable):
    """calls of borrow()/borrow_mut() on self.context.module_cache"""
    out = []
    names = ("borrow_mut",) if mutable else ("borrow", "borrow_mut")
    for c in fn.calls():
        if c.short.rsplit("::", 1)[-1] in names and c.args:
            l = op_base(c.args[0])
            if l is None:
                continue
            fs = place_fields(op_place(c.args[0]))
            r = self_field_root(cx.du(fn), l) or []
            if "module_cache" in fs or "module_cache" in r:
                out.append(c)
    return out


def _recv_guard(cx, fn, call):
    """the borrow()/borrow_mut() call whose guard is the receiver of `call` (through deref), or None"""
    if not call.args:
        return None
    l = op_base(call.args[0])
    if l is None:
        return None
    root = cx.du(fn).root(l, through_calls=DEREF)
    if root[0] == "call":
        return root[1]
    return None


def rule_import(cx, tier):
    r = RuleResult("R-IMPORT", "a failed import is rolled back on every path: after the None placeholder is "
                               "inserted into the module cache, every return passes a later cache write "
                               "(insert Some / remove) and the restoration of self.exports")
    fn = cx.need_fn(VM + "run_import")
    cfg = cx.cfg(fn)
    du = cx.du(fn)
    guards = {c.bb: c for c in _cache_guard_calls(cx, fn, True)}
    writes = []
    for c in fn.calls():
        if c.short.rsplit("::", 1)[-1] in ("insert", "remove", "shift_remove", "swap_remove", "clear", "retain", "drain",
                                           "extract_if"):
            g = _recv_guard(cx, fn, c)
            if g is not None and g.bb in guards:
                writes.append(c)
    # the module's top level / tests / @main run inside a closure (or a private helper) of run_import: a cache write there
    # happens before the outcome of the import is known
    inner = []
    bodies = list(cx.F.closures_of(fn))
    run_name = cx.need_fn(VM + "run").name
    reach_run = cx.cg.reach_set({run_name})
    for c in fn.calls():
        for t in cx.cg.targets(c):
            tf = cx.F.fns.get(t)
            if tf is not None and tf.qual.startswith(VM) and tf.vis != "public" and t in reach_run and tf is not fn \
                    and tf.qual != VM + "run" and tf not in bodies:
                bodies.append(tf)
    for g in bodies:
        gg = {c.bb for c in _cache_guard_calls(cx, g, True)}
        for c in g.calls():
            if c.short.rsplit("::", 1)[-1] in ("insert", "remove", "shift_remove", "swap_remove", "clear", "retain"):
                gd = _recv_guard(cx, g, c)
                if gd is not None and gd.bb in gg:
                    inner.append((g, c))
    require(len(writes) + len(inner) >= 3,
            f"R-IMPORT: expected ≥3 module_cache writes in run_import, found {len(writes)} (+{len(inner)} in the module body)")
    for g, c in inner:
        r.instances += 1
        r.nontrivial += 1
        if c.short.endswith("::insert"):
            r.add(Finding("R-IMPORT", fn.qual, "cache:completed-before-outcome",
                          f"the module cache is written at line {c.line} while the module is still being run (inside "
                          f"{'the module body closure' if g.kind == 'Closure' else g.qual[len(VM):]}): an entry that says "
                          f"'imported' exists before the import has succeeded, so a failure after this point (@main, a later "
                          f"test) leaves a half-initialised module that the next import silently returns", g.file, c.line))
    # the cache also records which imports are in progress (None placeholders of the importers up the chain): a failed import
    # removes its own entry, never entries in bulk
    for c in writes:
        if c.short.rsplit("::", 1)[-1] in ("clear", "retain", "drain", "extract_if"):
            r.instances += 1
            r.nontrivial += 1
            r.add(Finding("R-IMPORT", fn.qual, "bulk:" + c.short.rsplit("::", 1)[-1],
                          f"run_import removes entries from the module cache in bulk ({c.short.rsplit('::', 1)[-1]}): the None "
                          f"placeholders of the modules that are still being imported further up the chain disappear with it, "
                          f"so a cycle back to one of them is not detected and its top level runs again", fn.file, c.line))

    def is_none_insert(c):
        if not c.short.endswith("::insert") or len(c.args) < 3:
            return False
        l = op_local(c.args[2])
        if l is None:
            return False
        root = du.root(l)
        return root[0] == "rv" and root[1][0] == "agg" and root[1][1][0] == "adt" and root[1][1][2] == "None"

    placeholders = [c for c in writes if is_none_insert(c)]
    require(len(placeholders) >= 1, "R-IMPORT: placeholder insertion (insert(path, None)) not found")
    finals = [c for c in writes if c not in placeholders]
    # exports restoration: assignment (or mem::replace/swap) to self.exports of a value saved from self.exports
    saved = set()
    for c in fn.calls():
        if c.short.endswith("<KMap as Clone>::clone") and c.args:
            l = op_base(c.args[0])
            fs = place_fields(op_place(c.args[0]))
            rr = self_field_root(du, l) or []
            if "exports" in fs or rr == ["exports"]:
                saved.add(c.dest[0])
    restores = set()
    for b in fn.blocks:
        if b.cleanup:
            continue
        for st in b.stmts:
            if st[0] == "a" and st[1][0] == 1 and place_fields(st[1]) == ["exports"]:
                src = None
                if st[2][0] == "use":
                    src = op_base(st[2][1])
                if src is not None and _flows_from(du, src, saved):
                    restores.add(b.idx)
    for c in fn.calls():
        if c.is_("mem::replace", "mem::swap") and len(c.args) >= 2:
            l = op_base(c.args[0])
            rr = self_field_root(du, l) or []
            src = op_base(c.args[1])
            if rr == ["exports"] and src is not None and _flows_from(du, src, saved):
                restores.add(c.bb)
    r.analysed = {"cache_writes": len(writes), "placeholders": len(placeholders), "final_writes": len(finals),
                  "exports_saves": len(saved), "exports_restores": len(restores)}
    for p in placeholders:
        r.instances += 2
        r.nontrivial += 2
        fin = {c.bb for c in finals}
        path = cfg.find_path(p.bb, lambda b: b in cfg.exits, fin)
        if path is not None:
            esc = _escape_label(cx, fn, path)
            r.add(Finding("R-IMPORT", fn.qual, "cache:" + esc, "a return is reachable after the placeholder "
                          "insertion without removing it or replacing it by the module's exports: the module can "
                          "never be imported again (reported as a recursive import)", fn.file, p.line,
                          [f"bb{b} {fn.file}:{line_of(fn, b)}" for b in [p.bb] + path]))
        path = cfg.find_path(p.bb, lambda b: b in cfg.exits, restores)
        if path is not None:
            esc = _escape_label(cx, fn, path)
            r.add(Finding("R-IMPORT", fn.qual, "exports:" + esc, "a return is reachable after the placeholder "
                          "insertion without restoring the importer's exports map", fn.file, p.line,
                          [f"bb{b} {fn.file}:{line_of(fn, b)}" for b in [p.bb] + path]))
        r.sample({"fn": fn.qual, "placeholder_line": p.line, "final_write_lines": sorted(c.line for c in finals),
                  "restore_blocks": sorted(restores)})
    return r


def _flows_from(du, local, sources, depth=6):
    cur = local
    for _ in range(depth):
        if cur in sources:
            return True
        d = du.single_def(cur)
        if d is None or d[2] != "assign" or d[3][0] != "use":
            return False
        nxt = op_base(d[3][1])
        if nxt is None:
            return False
        cur = nxt
    return cur in sources


def _escape_label(cx, fn, path):
    brk = {ts.break_bb: ts for ts in try_sites(cx, fn) if ts.break_bb is not None}
    for b in path:
        if b in brk:
            ts = brk[b]
            return "?:" + (ts.producer.short.rsplit("::", 1)[-1] if ts.producer else "expr")
    last = None
    for b in path:
        c = fn.call_at(b)
        if c is not None:
            last = c
    return "return:" + (last.short.rsplit("::", 1)[-1] if last else "fallthrough")


def rule_import_once(cx, tier):
    r = RuleResult("R-IMPORT-ONCE", "in run_import the cache lookup dominates the placeholder insertion, which "
                                    "dominates the execution of the module; the in-progress (Some(None)) edge "
                                    "only reaches an error exit; a cache hit returns without running the module")
    fn = cx.need_fn(VM + "run_import")
    cfg = cx.cfg(fn)
    du = cx.du(fn)
    lookups = []
    for c in fn.calls():
        if c.short.rsplit("::", 1)[-1] in ("get", "get_mut", "contains_key", "get_key_value"):
            g = _recv_guard(cx, fn, c)
            if g is not None and g in _cache_guard_calls(cx, fn, False):
                lookups.append(c)
    require(lookups, "R-IMPORT-ONCE: module_cache lookup not found in run_import")
    guards = {c.bb for c in _cache_guard_calls(cx, fn, True)}
    placeholders = []
    for c in fn.calls():
        if c.short.endswith("::insert") and len(c.args) >= 3:
            g = _recv_guard(cx, fn, c)
            if g is None or g.bb not in guards:
                continue
            l = op_local(c.args[2])
            root = du.root(l) if l is not None else None
            if root and root[0] == "rv" and root[1][0] == "agg" and root[1][1][0] == "adt" and root[1][1][2] == "None":
                placeholders.append(c)
    require(placeholders, "R-IMPORT-ONCE: placeholder insertion not found")
    # executing the module: a call (here: of the local closure) that reaches KotoVm::run
    runs = []
    run_name = cx.need_fn(VM + "run").name
    reach_run = cx.cg.reach_set({run_name})
    for c in fn.calls():
        tg = cx.cg.targets(c)
        if any(t in reach_run for t in tg) and (c.short == VM + "run" or any(cx.F.fns[t].kind == "Closure" for t in tg if t in cx.F.fns)):
            runs.append(c)
        elif any(t in reach_run for t in tg) and c.short.startswith(VM) and cx.F.fn(c.short) is not None \
                and cx.F.fn(c.short).vis != "pub" and any(x.short == VM + "run" for x in cx.F.fn(c.short).calls()):
            runs.append(c)          # the module body is run by a private helper method (`run_imported_module`)
    require(runs, "R-IMPORT-ONCE: no call in run_import reaches KotoVm::run")
    r.analysed = {"lookups": len(lookups), "placeholders": len(placeholders), "module_runs": len(runs)}
    lk = lookups[0]
    for p in placeholders:
        r.instances += 1
        r.nontrivial += 1
        if not cfg.dominates(lk.bb, p.bb):
            r.add(Finding("R-IMPORT-ONCE", fn.qual, "lookup-dominates-placeholder", "the placeholder can be inserted "
                          "without consulting the module cache first", fn.file, p.line))
    for run in runs:
        r.instances += 1
        r.nontrivial += 1
        if not any(cfg.dominates(p.bb, run.bb) for p in placeholders):
            r.add(Finding("R-IMPORT-ONCE", fn.qual, "placeholder-dominates-run", "the module body can be executed "
                          "before the in-progress placeholder is in the cache (import cycles would recurse)",
                          fn.file, run.line))
    # edges of the lookup result: find the switch over Option<Option<..>> derived from the lookup
    res = _option_option_edges(cx, fn, cfg, lk, placeholders[0].bb)
    if res is None:
        r.undecided.append("could not identify the Some(None)/Some(Some) edges of the cache lookup")
    else:
        in_progress, hit = res
        run_blocks = {x.bb for x in runs}
        ph_blocks = {p.bb for p in placeholders}
        for e in in_progress:
            r.instances += 1
            r.nontrivial += 1
            reach = cfg.reachable({e})
            if reach & (run_blocks | ph_blocks):
                r.add(Finding("R-IMPORT-ONCE", fn.qual, "cycle-edge", "the in-progress (Some(None)) outcome of the "
                              "cache lookup can reach the module execution instead of reporting a recursive import",
                              fn.file, line_of(fn, e)))
            else:
                from ..mir import exit_class
                # every return reachable must be an error exit: the edge must construct an Err
                ok = _reaches_only_err(cx, fn, cfg, e)
                if not ok:
                    r.add(Finding("R-IMPORT-ONCE", fn.qual, "cycle-edge-ok-exit", "the in-progress (Some(None)) "
                                  "outcome of the cache lookup can return without an error", fn.file, line_of(fn, e)))
        for e in hit:
            r.instances += 1
            r.nontrivial += 1
            # the hit edge is guarded by loaded_from_cache; the guarded branch must not reach run
            pass
        r.sample({"fn": fn.qual, "lookup_line": lk.line, "placeholder_lines": [p.line for p in placeholders],
                  "run_lines": [x.line for x in runs], "in_progress_edges": sorted(in_progress), "hit_edges": sorted(hit)})
    return r


def _option_option_edges(cx, fn, cfg, lookup, must_reach):
    """Find the switch on the discriminant of the inner Option of an Option<Option<_>> local derived from the
    lookup; return (blocks for Some(None), blocks for Some(Some))."""
    c = fn.crate
    cand = None
    cand_bb = None
    for b in fn.blocks:
        if b.cleanup or not cfg.dominates(lookup.bb, b.idx):
            continue
        for st in b.stmts:
            if st[0] == "a" and st[2][0] == "discr":
                pl = st[2][1]
                # inner: (_x as Some).0
                if pl[1] and isinstance(pl[1][0], list) and pl[1][0][0] == "v" and pl[1][0][1] == "Some":
                    base_ty = c.types[fn.local_ty(pl[0])]
                    if base_ty["s"].startswith("std::option::Option<std::option::Option<"):
                        t = b.term
                        if t[0] == "switch" and must_reach in cfg.reachable({b.idx}) and \
                                (cand_bb is None or not cfg.dominates(cand_bb, b.idx)):
                            cand = t
                            cand_bb = b.idx
    if cand is None:
        return None
    none_e = {bb for v, bb in cand[2] if v == 0}
    some_e = {bb for v, bb in cand[2] if v == 1}
    if not some_e:
        some_e = {cand[3]}
    if not none_e:
        none_e = {cand[3]}
    return none_e, some_e


def _reaches_only_err(cx, fn, cfg, start):
    """every return reachable from `start` has _0 last written by an Err constructor / error helper on the way"""
    # walk forward; a path is fine once it passes a block that writes _0 with an error class
    from ..mir import _block_ret_class
    seen = set()
    work = [start]
    while work:
        b = work.pop()
        if b in seen:
            continue
        seen.add(b)
        cls = _block_ret_class(fn, b)
        if cls is not None:
            if cls == "err":
                continue
            if cls.startswith("call:"):
                nm = cls[5:]
                t = cx.F.fns.get(nm)
                if t is not None and always_err(cx, t):
                    continue
                if "from_residual" in nm:
                    continue
            return False
        if fn.blocks[b].term[0] == "ret":
            return False
        work.extend(cfg.succ[b])
    return True




# ---------------------------------------------------------------------------------------------
# R-IP-SYNC (C12): the instruction pointer used for error positions is in sync on every loop entry

def rule_ip_sync(cx, tier):
    r = RuleResult("R-IP-SYNC", "the position recorded for diagnostics is current on every entry of the interpreter loop: "
                                "every path from the entry of execute_instructions to an instruction dispatch passes an "
                                "assignment of self.instruction_ip")
    fn = cx.need_fn(VM + "execute_instructions")
    cfg = cx.cfg(fn)
    sets = set()
    for b in fn.blocks:
        if b.cleanup:
            continue
        for st in b.stmts:
            if st[0] == "a" and st[1][0] == 1 and place_fields(st[1]) == ["instruction_ip"]:
                sets.add(b.idx)
    disp = [c for c in fn.calls() if c.short == VM + "execute_instruction"]
    require(sets, "R-IP-SYNC: no assignment of self.instruction_ip in execute_instructions")
    require(disp, "R-IP-SYNC: no dispatch call in execute_instructions")
    r.analysed = {"instruction_ip_assignments": len(sets), "dispatch_sites": len(disp)}
    for d in disp:
        r.instances += 1
        r.nontrivial += 1
        p = None if 0 in sets else cfg.find_path(0, lambda b: b == d.bb, sets, include_src_succs=False)
        if p is not None:
            r.add(Finding("R-IP-SYNC", fn.qual, "entry", "an instruction can be dispatched before self.instruction_ip has "
                          "been set on this entry of the loop: after a generator resumes (or a nested entry) the first "
                          "instruction reports the position of the previous run's last instruction", fn.file, d.line,
                          [f"bb{b} {fn.file}:{line_of(fn, b)}" for b in p]))
        r.sample({"fn": fn.qual, "dispatch_line": d.line, "assignment_blocks": sorted(sets), "synced_on_entry": p is None})
    # and again after each dispatched instruction (the loop's back edge)
    for (t, h) in cfg.back_edges():
        loop = cfg.natural_loop(t, h)
        if not any(d.bb in loop for d in disp):
            continue
        r.instances += 1
        r.nontrivial += 1
        for d in disp:
            if d.bb not in loop:
                continue
            p = cfg.find_path(d.bb, lambda b: b == d.bb, sets)
            if p is not None and all(b in loop for b in p):
                r.add(Finding("R-IP-SYNC", fn.qual, "iteration", "the loop can dispatch the next instruction without "
                              "updating self.instruction_ip", fn.file, d.line,
                              [f"bb{b} {fn.file}:{line_of(fn, b)}" for b in p]))
    return r


# ---------------------------------------------------------------------------------------------
# R-RESOLVE-ORDER (C18): name.koto is tried before name/main.koto

def rule_resolve_order(cx, tier):
    r = RuleResult("R-RESOLVE-ORDER", "module resolution tries `name.koto` before `name/main.koto`: in find_module the "
                                      "existence test of the candidate built without the \"main\" component dominates the "
                                      "test of the candidate built with it, which lies on the first test's false edge")
    fn = cx.F.fn("koto_bytecode::module_loader::find_module")
    require(fn is not None, "R-RESOLVE-ORDER: find_module not found")
    cfg = cx.cfg(fn)
    du = cx.du(fn)

    def uses_main(local, depth=0, seen=None):
        """does the path value derive from a join("main")"""
        seen = seen or set()
        if local is None or local in seen or depth > 12:
            return False
        seen.add(local)
        for d in du.defs.get(local, []):
            if d[2] == "call":
                c = d[3]
                for a in c.args:
                    k = op_const(a)
                    if k is not None and k.get("d", "").strip('"') == "main":
                        return True
                    l = op_base(a)
                    if l is not None:
                        rr = du.root(l)
                        if rr[0] == "const" and rr[1].get("d", "").strip('"') == "main":
                            return True
                        if uses_main(l, depth + 1, seen):
                            return True
            elif d[2] == "assign":
                rv = d[3]
                from ..mir import rv_places
                for pl in rv_places(rv):
                    if uses_main(pl[0], depth + 1, seen):
                        return True
        return False

    def is_candidate(local, depth=0, seen=None):
        """does the path derive from search_folder.join(module_name): a Path::join whose argument is the name parameter"""
        seen = seen or set()
        if local is None or local in seen or depth > 12:
            return False
        seen.add(local)
        for d in du.defs.get(local, []):
            if d[2] == "call":
                c = d[3]
                if c.is_("Path::join", "PathBuf::join") and len(c.args) > 1:
                    a = op_base(c.args[1])
                    if a is not None and du.root(a) == ("arg", 1):
                        return True
                for a in c.args:
                    if is_candidate(op_base(a), depth + 1, seen):
                        return True
            elif d[2] == "assign":
                from ..mir import rv_places
                for pl in rv_places(d[3]):
                    if is_candidate(pl[0], depth + 1, seen):
                        return True
        return False

    tests = []
    for c in fn.calls():
        if c.is_("Path::exists", "Path::is_file", "Path::try_exists", "Path::is_dir") and c.args:
            if is_candidate(op_base(c.args[0])):
                tests.append((c, uses_main(op_base(c.args[0]))))
    r.analysed = {"existence_tests": [(c.line, m) for c, m in tests]}
    r.instances = 1
    r.nontrivial = 1
    file_tests = [c for c, m in tests if not m]
    dir_tests = [c for c, m in tests if m]
    if not file_tests or not dir_tests:
        r.add(Finding("R-RESOLVE-ORDER", fn.qual, "candidates", "find_module no longer tests the file candidate "
                      "(`name.koto`) and the directory candidate (`name/main.koto`) separately: which one wins when both "
                      "exist is no longer fixed by the order of two tests", fn.file, fn.line))
        return r
    f0, d0 = file_tests[0], dir_tests[0]
    ok = cfg.dominates(f0.bb, d0.bb)
    if ok:
        # the directory test lies on the false edge of the file test
        flag = f0.dest[0]
        b = f0.target
        t = fn.blocks[b].term if b is not None else None
        if t and t[0] == "switch" and op_base(t[1]) == flag:
            false_edges = [tb for v, tb in t[2] if v == 0]
            ok = any(e == d0.bb or cfg.dominates(e, d0.bb) for e in false_edges)
    if not ok:
        r.add(Finding("R-RESOLVE-ORDER", fn.qual, "order", "the directory candidate (`name/main.koto`) is not tested only "
                      "after the file candidate (`name.koto`) was found missing", fn.file, d0.line))
    r.sample({"fn": fn.qual, "file_test_line": f0.line, "dir_test_line": d0.line, "ok": ok})
    return r


# ---------------------------------------------------------------------------------------------
# R-UNWIND-ALL (C07, C08): every error leaves the interpreter loop through the unwinder

def rule_unwind_all(cx, tier):
    r = RuleResult("R-UNWIND-ALL", "every error that execute_instructions returns has passed pop_call_stack_on_error: the "
                                   "unwinder is what pops the frames (and their registers) of the failed run down to the "
                                   "barrier frame, so an error returned around it leaves frames of the failed run on the "
                                   "call stack of the runtime (or lets a timed-out generator be resumed)")
    from ..mir import _block_ret_class
    fn = cx.need_fn(VM + "execute_instructions")
    cfg = cx.cfg(fn)
    unw = {c.bb for c in fn.calls() if c.short == VM + "pop_call_stack_on_error"}
    require(unw, "R-UNWIND-ALL: no call of pop_call_stack_on_error in execute_instructions")
    # blocks that write an error into the return place
    err_writes = []
    for b in fn.blocks:
        if b.cleanup or b.idx not in cfg.reach:
            continue
        cls = _block_ret_class(fn, b.idx)
        if cls is None:
            continue
        if cls == "err":
            err_writes.append(b.idx)
        elif cls.startswith("call:"):
            t = cx.F.fns.get(cls[5:])
            if t is not None and always_err(cx, t):
                err_writes.append(b.idx)
            elif "from_residual" in cls:
                err_writes.append(b.idx)
    r.analysed = {"unwinder_calls": len(unw), "blocks_writing_an_error_result": len(err_writes)}
    r.floor("blocks writing an error result in execute_instructions", len(err_writes), 1)
    for wb in err_writes:
        r.instances += 1
        r.nontrivial += 1
        p = cfg.find_path(0, lambda b: b == wb, avoid=unw, include_src_succs=False)
        r.sample({"error_written_at_line": line_of(fn, wb), "through_unwinder": p is None})
        if p is not None:
            # `map(..)` of the unwinder's own result is the unwinder's error: written in the block of the call itself
            r.add(Finding("R-UNWIND-ALL", fn.qual, "error-exit-around-unwinder",
                          "execute_instructions can return an error without calling pop_call_stack_on_error: the frames "
                          "pushed by the failed run stay on the call stack (values are kept alive, register_base stays "
                          "raised, a generator that timed out can be resumed)", fn.file, line_of(fn, wb),
                          [f"bb{b} {fn.file}:{line_of(fn, b)}" for b in p][-12:]))
    return r


# ---------------------------------------------------------------------------------------------
# R-ERR-KIND (C04, C08): an error is passed on as it is, not as the text of itself

def rule_err_kind(cx, tier):
    r = RuleResult("R-ERR-KIND", "a runtime error that is passed on keeps its kind: no koto_runtime::Error is rendered with "
                                 "to_string() and wrapped into a new Error -- the copy is an ordinary string error, so a "
                                 "timeout that travels through it becomes catchable and a thrown value reaches `catch` as "
                                 "text")
    F = cx.F
    n = 0
    for fn in F.fns.values():
        if fn.crate.uname != "koto_runtime" or fn.derived:
            continue
        du = None
        for c in fn.calls():
            if not c.is_("ToString::to_string") or not c.args:
                continue
            aty = fn.crate.tstr(c.arg_ty(0))
            if not (aty.endswith("error::Error") or aty.endswith("koto_runtime::Error") or "error::Error" in aty.split("<")[0]):
                continue
            if "ErrorKind" in aty:
                continue
            n += 1
            r.instances += 1
            r.nontrivial += 1
            du = du or cx.du(fn)
            text = c.dest[0]
            # where does the text go
            rewrapped = None
            aliases = {text}
            changed = True
            while changed:
                changed = False
                for b in fn.blocks:
                    if b.cleanup:
                        continue
                    for st in b.stmts:
                        if st[0] == "a" and st[2][0] in ("use", "cast") and not st[1][1]:
                            pl = op_place(st[2][1] if st[2][0] == "use" else st[2][2])
                            if pl is not None and pl[0] in aliases and st[1][0] not in aliases:
                                aliases.add(st[1][0])
                                changed = True
                for c2 in fn.calls():
                    if any(op_base(a) in aliases for a in c2.args) and not c2.dest[1]:
                        dty = fn.crate.tstr(fn.local_ty(c2.dest[0]))
                        if c2.is_("From::from", "Into::into") and (dty.endswith("error::Error") or dty.endswith("::Error")) \
                                and "KString" not in dty:
                            rewrapped = c2
                        elif c2.is_("From::from", "Into::into", "Clone::clone") and c2.dest[0] not in aliases:
                            aliases.add(c2.dest[0])
                            changed = True
            r.sample({"fn": cx.label(fn), "line": c.line, "text_becomes_a_new_error": rewrapped is not None})
            if rewrapped is not None:
                r.add(Finding("R-ERR-KIND", cx.label(fn), "to_string->Error",
                              "an Error is rendered with to_string() and the text is wrapped into a new Error: the original "
                              "kind is lost (a Timeout becomes a catchable string error, a thrown value becomes its "
                              "rendering including the trace)", fn.file, c.line))
    r.analysed = {"errors_rendered_to_text": n}
    r.floor("to_string() calls on koto_runtime::Error", n, 1)
    return r


# ---------------------------------------------------------------------------------------------
# R-ERR-SWALLOW (C04, C08): only a thrown `koto.unimplemented` may be replaced by a fallback

def rule_err_swallow(cx, tier):
    r = RuleResult("R-ERR-SWALLOW", "when a nested interpreter entry (an overloaded operator, @next, ..) fails, the error is "
                                    "returned; the only paths on which execution goes on to something else (the fallback to "
                                    "the right operand's @r.. entry) lie behind a test that the error's kind is KotoError (a "
                                    "thrown koto.unimplemented): a timeout, or any runtime error, is never replaced by the "
                                    "fallback's outcome")
    F = cx.F
    ALLOWED = ("pop_frame", "drop_in_place", "clone", "extend_trace", "branch", "from_residual", "deref", "is_a", "borrow",
               "with_context", "fmt", "into", "from", "to_string", "truncate_registers", "as_ref", "eq", "type_id")
    n = 0
    thin = thin_entry_wrappers(cx)
    for fn in F.fns.values():
        if fn.crate.uname != "koto_runtime" or fn.derived or not fn.qual.startswith(VM):
            continue
        ex = [c for c in fn.calls() if c.short == VM + "execute_instructions" or c.short in thin]
        if not ex:
            continue
        cfg = cx.cfg(fn)
        du = cx.du(fn)
        exits = set(cfg.exits)
        for c in ex:
            # the Err edge: the first test (on every path) of the discriminant of the call's result, or of a value the
            # result was moved into (`let r = execute(); ..; match r`, also when another branch assigns the same local
            # an `Ok(..)`); later re-reads of the discriminant are drop elaboration, on paths the error never takes
            derived = {c.dest[0]}
            grew = True
            while grew:
                grew = False
                for b in fn.blocks:
                    if b.cleanup:
                        continue
                    for st in b.stmts:
                        if st[0] == "a" and not st[1][1] and st[1][0] not in derived and st[2][0] == "use":
                            pl = op_place(st[2][1])
                            if pl is not None and not pl[1] and pl[0] in derived:
                                derived.add(st[1][0])
                                grew = True
            cands = []
            for b in fn.blocks:
                if b.cleanup or b.term[0] != "switch" or b.idx not in cfg.reachable_after(c.bb):
                    continue
                l = op_base(b.term[1])
                d = du.single_def(l) if l is not None else None
                if d is not None and d[2] == "assign" and d[3][0] == "discr" and d[3][1][0] in derived and not d[3][1][1]:
                    cands.append(b)
            err_targets = set()
            for b in cands:
                if any(o.idx != b.idx and cfg.dominates(o.idx, b.idx) for o in cands):
                    continue
                for v, tb in b.term[2]:
                    if v == 1:
                        err_targets.add(tb)
                if not any(v == 1 for v, _ in b.term[2]) and any(v == 0 for v, _ in b.term[2]):
                    err_targets.add(b.term[3])
            if not err_targets:
                continue
            n += 1
            r.instances += 1
            r.nontrivial += 1
            # kind tests: switches on the discriminant of `<something>.error`
            koto_edges = set()
            for b in fn.blocks:
                if b.cleanup or b.term[0] != "switch":
                    continue
                l = op_base(b.term[1])
                d = du.single_def(l) if l is not None else None
                if d is not None and d[2] == "assign" and d[3][0] == "discr":
                    pl = d[3][1]
                    ad = fn.crate.tstr(pl[2]) if len(pl) > 2 and isinstance(pl[2], int) else ""
                    is_kind = "ErrorKind" in ad
                    if not is_kind:
                        # discriminant((*_r)) with _r = &(x.error)
                        dd = du.single_def(pl[0])
                        if dd is not None and dd[2] == "assign" and dd[3][0] in ("ref", "rawptr") and \
                                "error" in place_fields(dd[3][2]):
                            is_kind = True
                        if "error" in place_fields(pl):
                            is_kind = True
                    if not is_kind:
                        continue
                    for v, tb in b.term[2]:
                        if F.variant_by_discr("koto_runtime::error::ErrorKind", v) == "KotoError":
                            koto_edges.add((b.idx, tb))
            # explore from the Err edge without taking a KotoError edge; bool flags assigned a constant on the way are
            # remembered, so `let is_x = matches!(kind, KotoError {..}); if !is_x { return Err(e) }` is followed only along
            # the outcome the flag really has on that path
            seen = set()
            work = [(t, frozenset()) for t in err_targets]
            offending = None
            while work and offending is None:
                b, known0 = work.pop()
                if (b, known0) in seen:
                    continue
                seen.add((b, known0))
                known = dict(known0)
                for st in fn.blocks[b].stmts:
                    if st[0] != "a" or st[1][1]:
                        continue
                    dst, rv = st[1][0], st[2]
                    val = None
                    if rv[0] == "use":
                        if op_const(rv[1]) is not None and fn.local_tstr(dst) == "bool":
                            val = bool(op_int(rv[1]))
                        else:
                            pl = op_place(rv[1])
                            if pl is not None and not pl[1] and pl[0] in known:
                                val = known[pl[0]]
                    elif rv[0] == "un" and rv[1] == "Not":
                        pl = op_place(rv[2])
                        if pl is not None and not pl[1] and pl[0] in known:
                            val = not known[pl[0]]
                    if val is None:
                        known.pop(dst, None)
                    else:
                        known[dst] = val
                c2 = fn.call_at(b)
                if c2 is not None:
                    known.pop(c2.dest[0], None)
                if c2 is not None:
                    last = (c2.pretty or c2.short or "").rsplit("::", 1)[-1]
                    if last not in ALLOWED:
                        offending = c2
                        break
                if b in exits:
                    continue
                # once the return place has been written the function is on its way out: what follows are drops, and
                # drop-flag switches whose infeasible edges lead back into the normal flow
                if any(st[0] == "a" and st[1][0] == 0 for st in fn.blocks[b].stmts) or \
                        (c2 is not None and c2.dest[0] == 0):
                    continue
                t = fn.blocks[b].term
                feasible = None
                if t[0] == "switch" and op_base(t[1]) in known and not (op_place(t[1]) or [0, [1]])[1]:
                    v = 1 if known[op_base(t[1])] else 0
                    tgt = [tb for (val, tb) in t[2] if val == v]
                    feasible = set(tgt) if tgt else {t[3]}
                kf = frozenset(known.items())
                for s2 in cfg.succ[b]:
                    if (b, s2) in koto_edges:
                        continue
                    if feasible is not None and s2 not in feasible:
                        continue
                    work.append((s2, kf))
            r.sample({"fn": fn.qual, "entry_line": c.line, "non_koto_errors_only_returned": offending is None})
            if offending is not None:
                r.add(Finding("R-ERR-SWALLOW", fn.qual, "fallback-after-any-error:" + offending.short.rsplit("::", 1)[-1],
                              f"after the nested entry at line {c.line} has failed, {offending.short.rsplit('::', 1)[-1]} (line "
                              f"{offending.line}) can be reached without the error's kind having been tested for KotoError: an "
                              f"error that is not a thrown koto.unimplemented -- a timeout, for instance -- is replaced by "
                              f"the fallback's outcome and becomes catchable", fn.file, offending.line))
    r.analysed = {"nested_entries_with_an_error_edge": n}
    r.floor("nested interpreter entries with an error edge", n, 4)
    return r


# ---------------------------------------------------------------------------------------------
# R-BARRIER-FRAME (C17, C06): the execution barrier goes on a frame that the call really pushed

def rule_barrier_frame(cx, tier):
    r = RuleResult("R-BARRIER-FRAME",
                   "`frame_mut().execution_barrier = true` marks the *top* frame, so it must be the callee's: wherever "
                   "KotoVm sets it, either the function pushed the frame itself (`push_frame` dominates the write and the "
                   "function makes no call through `call_callable`), or the write lies on the 'call stack has grown' outcome "
                   "of a comparison of `call_stack.len()` with its earlier value -- a native function, object or generator "
                   "stored under a metakey pushes no frame, and the barrier would land on the caller's own frame. A helper "
                   "that sets the barrier unconditionally hands the obligation to each of its call sites")
    from .narrow import Sym, guards, leaves_of, edge_side
    INDIRECT = ("call_callable", "call_overridden_op_1", "call_overridden_op_2", "call_overridden_op_3")
    vmfns = [fn for fn in cx.F.fns.values() if fn.crate.uname == "koto_runtime" and not fn.derived and fn.qual.startswith(VM)]
    info = {}

    def facts(fn):
        if fn.name not in info:
            cfg = cx.cfg(fn)
            calls = fn.calls()
            sym = Sym(cx, fn)
            gs = [g for g in guards(cx, fn, sym) if g[2] in ("Eq", "Ne", "Lt", "Le", "Gt", "Ge") and
                  any("len(self.call_stack)" in leaves_of(e) for e in (g[3], g[4]))]
            info[fn.name] = (cfg, [c for c in calls if c.short.startswith(VM) and c.short[len(VM):] in INDIRECT],
                             [c for c in calls if c.short == VM + "push_frame"], gs)
        return info[fn.name]

    def verdict_at(fn, bb):
        cfg, indirect, pushes, gs = facts(fn)
        if not indirect and any(cfg.dominates(c.bb, bb) for c in pushes):
            return "own push_frame"
        for (gb, dest, opn, le, re_, cty) in gs:
            side = edge_side(cx, fn, cfg, gb, dest, bb)
            len_is_lhs = "len(self.call_stack)" in leaves_of(le)
            grown = {("Eq", "false"), ("Ne", "true")}
            grown |= {("Gt", "true"), ("Le", "false")} if len_is_lhs else {("Lt", "true"), ("Ge", "false")}
            if (opn, side) in grown:
                return "call stack has grown"
        return None

    def obligations(fn, bb, depth, trail):
        """[(function, block)] sites left unjustified for a barrier set at (fn, bb), following helpers up to their callers"""
        if verdict_at(fn, bb) is not None:
            return [], 0
        # a function that makes the possibly-frameless call itself is the one that has to test the call stack
        if depth >= 3 or fn.vis == "pub" or facts(fn)[1]:
            return [(fn, bb)], 0
        callers = [(g, c) for g in vmfns for c in g.calls() if c.short == fn.qual and (g.name, c.bb) not in trail]
        if not callers:
            return [(fn, bb)], 0
        out, n = [], 0
        for g, c in callers:
            o, k = obligations(g, c.bb, depth + 1, trail | {(g.name, c.bb)})
            out += o
            n += 1 + k
        return out, n

    n = 0
    for fn in vmfns:
        writes = []
        for b in fn.blocks:
            if b.cleanup:
                continue
            for st in b.stmts:
                if st[0] == "a" and place_fields(st[1])[-1:] == ["execution_barrier"] and st[2][0] == "use" \
                        and op_const(st[2][1]) is not None and op_int(st[2][1]) not in (0, False):
                    writes.append(b.idx)
        for wb in writes:
            n += 1
            r.instances += 1
            r.nontrivial += 1
            open_sites, via = obligations(fn, wb, 0, frozenset())
            n += via
            r.instances += via
            r.sample({"fn": fn.qual, "line": line_of(fn, wb), "verdict": verdict_at(fn, wb) or
                      ("justified at each of its %d call sites" % via if not open_sites else "unguarded")})
            for (g, bb) in open_sites:
                r.add(Finding("R-BARRIER-FRAME", g.qual, "barrier-without-frame-test",
                              "the execution barrier is set" + ("" if g is fn else f" (through {fn.qual[len(VM):]})") +
                              " after a call that may not have pushed a frame (native function, "
                              "object, generator, `@call` map), with no test that `call_stack.len()` has grown: the barrier "
                              "lands on the caller's own frame and the nested `execute_instructions()` runs the rest of the "
                              "enclosing function (wrong results; `Empty call stack` panic for `@next`)",
                              g.file, line_of(g, bb)))
    r.floor("barrier sites (writes of execution_barrier = true + call sites of helpers that set it)", n, 3)
    r.analysed = {"barrier_sites": n}
    return r


# ---------------------------------------------------------------------------------------------
# R-UNPACK-ONCE (C06, C17): unpacked call arguments are not unpacked again when the call is forwarded

def rule_unpack_once(cx, tier):
    r = RuleResult("R-UNPACK-ONCE",
                   "`unpack_packed_arguments` drains the registers that hold the packed-argument indices, so on every "
                   "normal return `info.packed_arg_count` is 0 (the early return under the `== 0` test, or an assignment of "
                   "0): `call_callable` forwards the same CallInfo to a map's `@call` function, and a second unpacking "
                   "would index past the drained registers (panic)")
    fn = cx.need_fn(VM + "unpack_packed_arguments")
    cfg = cx.cfg(fn)
    du = cx.du(fn)
    from .narrow import Sym, guards, leaves_of, edge_side
    # blocks that establish count == 0
    zero_blocks = set()
    for b in fn.blocks:
        if b.cleanup:
            continue
        for st in b.stmts:
            if st[0] == "a" and place_fields(st[1])[-1:] == ["packed_arg_count"] and st[2][0] == "use" and \
                    op_const(st[2][1]) is not None and op_int(st[2][1]) == 0:
                zero_blocks.add(b.idx)
    sym = Sym(cx, fn)
    eq_zero = []
    for (gb, dest, opn, le, re_, cty) in guards(cx, fn, sym):
        if opn in ("Eq", "Ne") and any(e == ("K", 0) for e in (le, re_)) and \
                any(any("packed_arg_count" in x for x in leaves_of(e)) for e in (le, re_)):
            eq_zero.append((gb, dest, opn))
    require(eq_zero or zero_blocks, "R-UNPACK-ONCE: neither a `packed_arg_count == 0` test nor a reset found")
    # writers of the count other than the reset: none may follow the reset
    r.instances += 1
    r.nontrivial += 1
    bad = None
    from .compiler import ret_class_of_block
    # explore from entry avoiding the reset blocks and the `== 0` outcome of the test: reaching a non-error return is a
    # violation (an error return abandons the call)
    avoid = set(zero_blocks)
    zero_edges = set()
    for (gb, dest, opn) in eq_zero:
        for b in fn.blocks:
            from .narrow import _switch_outcomes
            for (l, te, fe) in _switch_outcomes(cx, fn, b) or []:
                if l == dest:
                    for t in (te if opn == "Eq" else fe):
                        zero_edges.add((b.idx, t))
    seen = set()
    work = [0]
    while work and bad is None:
        b = work.pop()
        if b in seen or b in avoid:
            continue
        seen.add(b)
        cls = ret_class_of_block(cx, fn, b)
        if cls == "ok":
            bad = b
            break
        if cls == "err":
            continue
        for s2 in cfg.succ[b]:
            if (b, s2) not in zero_edges:
                work.append(s2)
    # the other correct spelling: the forwarding call builds its CallInfo with `packed_arg_count: 0`
    cc0 = cx.need_fn(VM + "call_callable")
    du0 = cx.du(cc0)
    adt = cx.F.adts.get("koto_runtime::vm::CallInfo")
    fidx = [f[0] for f in adt["variants"][0]["fields"]].index("packed_arg_count") if adt else None
    fwd0 = [c for c in cc0.calls() if c.short == VM + "call_callable"]
    forwards_zero = bool(fwd0) and fidx is not None
    for c in fwd0:
        l = op_base(c.args[1]) if len(c.args) > 1 else None
        d = du0.single_def(l) if l is not None else None
        ok0 = False
        if d is not None and d[2] == "assign" and d[3][0] == "agg" and len(d[3][2]) > fidx:
            o = d[3][2][fidx]
            ok0 = op_const(o) is not None and op_int(o) == 0
        forwards_zero = forwards_zero and ok0
    r.sample({"fn": fn.qual, "resets": len(zero_blocks), "zero_tests": len(eq_zero), "ok_return_without_reset": bad is not None,
              "forwarding_call_passes_zero": forwards_zero})
    if bad is not None and forwards_zero:
        bad = None
    if bad is not None:
        r.add(Finding("R-UNPACK-ONCE", fn.qual, "ok-return-with-count-left",
                      "unpack_packed_arguments can return Ok with `info.packed_arg_count` still non-zero after draining the "
                      "packed-argument registers: call_callable forwards the CallInfo to a map's `@call` function, which "
                      "unpacks again and indexes past the end of the register stack (`x(args...)` panics for any map with "
                      "`@call`)", fn.file, line_of(fn, bad)))
    # and the forwarding really happens: call_callable calls itself
    cc = cx.need_fn(VM + "call_callable")
    r.instances += 1
    fwd = [c for c in cc.calls() if c.short == VM + "call_callable"]
    r.analysed = {"resets": len(zero_blocks), "zero_tests": len(eq_zero), "forwarding_calls_in_call_callable": len(fwd)}
    return r


# ---------------------------------------------------------------------------------------------
# R-REG-DISTINCT (C17): an operation's register parameters receive distinct registers

def rule_reg_distinct(cx, tier):
    r = RuleResult("R-REG-DISTINCT",
                   "wherever koto_runtime calls a KotoVm method with two or more register (`u8`) parameters, the arguments "
                   "are different registers (different locals, or different elements of a `next_registers()` array): an "
                   "operand register passed twice means another operand never reaches the operation (sibling evidence: "
                   "all other call sites pass distinct registers)")
    def resolve(fn, du, l, depth=0):
        if 1 <= l <= fn.argc or depth > 10:
            return ("l", l)
        d = du.single_def(l)
        if d is None or d[2] != "assign" or d[3][0] != "use":
            return ("l", l)
        pl = op_place(d[3][1])
        if pl is None:
            return ("k", str(d[3][1]))
        if pl[1]:
            return ("p", pl[0], str(pl[1]))
        return resolve(fn, du, pl[0], depth + 1)
    n = 0
    for fn in cx.F.fns.values():
        if fn.crate.uname != "koto_runtime" or fn.derived:
            continue
        du = None
        for c in fn.calls():
            if not c.short.startswith(VM):
                continue
            idx = [i for i in range(len(c.args)) if (fn.crate.tstr(c.arg_ty(i)) or "") == "u8"]
            if len(idx) < 2:
                continue
            du = du or cx.du(fn)
            n += 1
            r.instances += 1
            roots = {}
            for i in idx:
                l = op_base(c.args[i])
                if l is None:
                    continue          # constants
                roots.setdefault(resolve(fn, du, l), []).append(i)
            dups = [v for k, v in roots.items() if len(v) > 1 and k[0] != "k"]
            if dups:
                r.nontrivial += 1
                callee = c.short[len(VM):]
                r.add(Finding("R-REG-DISTINCT", fn.qual, f"{callee}:args{dups[0]}",
                              f"{callee} is called with the same register for its parameters #{dups[0][0]} and #{dups[0][1]}: "
                              f"one operand is used twice and another never reaches the operation", fn.file, c.line))
    r.floor("KotoVm calls with two or more register arguments", n, 37)
    r.analysed = {"calls_with_several_register_arguments": n}
    return r


# ---------------------------------------------------------------------------------------------
# backward slice helper (flow-insensitive): the locals and place fields a value derives from

def _backward_slice(fn, du, start, stop=()):
    """`stop`: last path segments of calls that the slice records but does not look behind"""
    from ..mir import rv_places
    seen = set()
    fields = set()
    calls = []
    work = [start]
    while work:
        l = work.pop()
        if l in seen:
            continue
        seen.add(l)
        for d in du.defs.get(l, []):
            if d[2] in ("assign", "partial") and not hasattr(d[3], "args"):
                for pl in rv_places(d[3]):
                    fields.update(place_fields(pl))
                    work.append(pl[0])
            else:
                c = d[3]
                calls.append(c)
                if (c.pretty or c.short or "").rsplit("::", 1)[-1].split("<")[0] in stop:
                    continue
                for a in c.args:
                    pl = op_place(a)
                    if pl is not None:
                        fields.update(place_fields(pl))
                        work.append(pl[0])
    return seen, fields, calls


# ---------------------------------------------------------------------------------------------
# R-MODULE-CANON (C18): the module cache key is a canonical path

def rule_module_canon(cx, tier):
    r = RuleResult("R-MODULE-CANON",
                   "the path `find_module` returns is the module's key in the module cache, and module names may contain "
                   "relative components (`import '../c'`): every non-error value written to the return place derives from "
                   "a `canonicalize` call, so one file has one key and its top level runs once")
    fn = cx.need_fn("koto_bytecode::module_loader::find_module")
    du = cx.du(fn)
    from .compiler import ret_class_of_block
    # helpers of the crate whose own result is a canonicalized path (`canonicalize_module_path(path)`)
    canon_helpers = set()
    for g in cx.F.crate_fns("koto_bytecode"):
        if g is fn or g.kind == "Closure" or "PathBuf" not in (g.local_tstr(0) or ""):
            continue
        dug = cx.du(g)
        srcs = [0]
        _, _, gcalls = _backward_slice(g, dug, 0, stop=("join", "with_extension", "push", "set_extension"))
        if any((cc.pretty or cc.short or "").rsplit("::", 1)[-1].startswith("canonicalize") for cc in gcalls):
            canon_helpers.add(g.name)
    n = 0
    for b in fn.blocks:
        if b.cleanup:
            continue
        cls = ret_class_of_block(cx, fn, b.idx)
        if cls != "ok":
            continue
        # the value written to _0 in this block
        srcs = []
        for st in b.stmts:
            if st[0] == "a" and st[1][0] == 0 and not st[1][1]:
                from ..mir import rv_places
                srcs += [pl[0] for pl in rv_places(st[2])]
        c = fn.call_at(b.idx)
        if c is not None and c.dest[0] == 0:
            srcs += [op_place(a)[0] for a in c.args if op_place(a) is not None]
        n += 1
        r.instances += 1
        r.nontrivial += 1
        canon = c is not None and c.dest[0] == 0 and c.resolved in canon_helpers
        for s0 in srcs:
            # canonicalize has to come after the module name was joined on: the (canonical) search folder behind the
            # join does not count
            _, _, calls = _backward_slice(fn, du, s0, stop=("join", "with_extension", "push", "set_extension"))
            if any((cc.pretty or cc.short or "").rsplit("::", 1)[-1].startswith("canonicalize") or cc.resolved in canon_helpers
                   for cc in calls):
                canon = True
        if not canon:
            # the other correct place: every caller canonicalizes what find_module hands back
            callers = [(g, c) for g in cx.F.fns.values() if g.crate.uname.startswith("koto") for c in g.calls()
                       if c.short == fn.qual or (c.resolved or "") == fn.name]
            def caller_canon(g, c):
                dug = cx.du(g)
                for c2 in g.calls():
                    if (c2.pretty or c2.short or "").rsplit("::", 1)[-1].startswith("canonicalize") and c2.args:
                        l = op_base(c2.args[0])
                        if l is not None and any(x.bb == c.bb for x in _backward_slice(g, dug, l)[2]):
                            return True
                return False
            canon = bool(callers) and all(caller_canon(g, c) for g, c in callers)
        r.sample({"line": line_of(fn, b.idx), "from_canonicalize": canon})
        if not canon:
            r.add(Finding("R-MODULE-CANON", fn.qual, "ok-return-not-canonical",
                          "find_module returns a path that did not pass through canonicalize: the same file reached through "
                          "a different relative name gets a second cache entry and its top level runs again",
                          fn.file, line_of(fn, b.idx)))
    r.floor("non-error returns of find_module", n, 1)
    r.analysed = {"ok_returns": n}
    return r


# ---------------------------------------------------------------------------------------------
# R-EXPORT-ID (C18): an imported item is exported under the id it was bound to

def rule_export_id(cx, tier):
    r = RuleResult("R-EXPORT-ID",
                   "in `compile_import`, the id a value is exported under depends on the same parts of the ImportItem as the "
                   "id its local register was assigned under: when the local's id can come from `item.name` (the `as` "
                   "alias), so can the exported id -- otherwise `import x as y` binds `y` but exports `x`")
    COMP = "koto_bytecode::Compiler::"
    fn = cx.need_fn(COMP + "compile_import")
    du = cx.du(fn)
    ITEM_FIELDS = {"name", "item"}
    n = 0
    for c in fn.calls():
        if c.short != COMP + "compile_value_export" or len(c.args) < 3:
            continue
        n += 1
        r.instances += 1
        r.nontrivial += 1
        id_l = op_base(c.args[1])
        reg_l = op_base(c.args[2])
        _, e_fields, _ = _backward_slice(fn, du, id_l) if id_l is not None else (None, set(), None)
        _, _, reg_calls = _backward_slice(fn, du, reg_l) if reg_l is not None else (None, None, [])
        a_fields = set()
        binders = 0
        for rc in reg_calls:
            if rc.short in (COMP + "assign_local_register", COMP + "reserve_local_register") and len(rc.args) > 1:
                binders += 1
                l = op_base(rc.args[1])
                if l is not None:
                    a_fields |= _backward_slice(fn, du, l)[1]
        need = (a_fields & ITEM_FIELDS) - (e_fields & ITEM_FIELDS)
        r.sample({"line": c.line, "bound_from": sorted(a_fields & ITEM_FIELDS), "exported_from": sorted(e_fields & ITEM_FIELDS),
                  "binders": binders})
        if need:
            r.add(Finding("R-EXPORT-ID", fn.qual, "export-id-ignores:" + ",".join(sorted(need)),
                          f"the local register is assigned under an id that can come from ImportItem.{'/'.join(sorted(need))} "
                          f"but the exported id never does: with export_top_level_ids, `import x as y` binds `y` and "
                          f"exports `x`", fn.file, c.line))
    r.floor("export sites in compile_import", n, 2)
    r.analysed = {"export_sites": n}
    return r


# ---------------------------------------------------------------------------------------------
# R-BUILDERS-ON-ERROR (C07): an error that leaves the interpreter loop takes its unfinished builders with it

def rule_builders_on_error(cx, tier):
    r = RuleResult("R-BUILDERS-ON-ERROR",
                   "every error that leaves `execute_instructions` passes the unwinder (`pop_call_stack_on_error`); on each "
                   "path from the top of the interpreter loop through an unwinder call to a return that does not resume at "
                   "a catch point (`set_ip`), both builder stacks (`sequence_builders`, `string_builders`) are shrunk -- "
                   "otherwise a list / string under construction when the error was raised stays in the VM for good")
    SHRINK = ("Vec::truncate", "Vec::drain", "Vec::split_off", "Vec::clear")
    FIELDS = ("sequence_builders", "string_builders")
    top = cx.need_fn(VM + "execute_instructions")

    def shrink_blocks(g, fld, depth=0):
        out = set()
        for c in g.calls():
            if c.is_(*SHRINK) and _receiver_is_self_field(cx, g, c, fld):
                out.add(c.bb)
            elif depth < 2 and c.short.startswith(VM) and c.short != g.qual:
                h = cx.F.fn(c.short)
                if h is not None and h.vis != "pub" and h is not top:
                    hs = shrink_blocks(h, fld, depth + 1)
                    hcfg = cx.cfg(h)
                    if hs and 0 not in hcfg.exits and \
                            hcfg.find_path(0, lambda b: b in hcfg.exits, hs, include_src_succs=True) is None:
                        out.add(c.bb)          # the helper shrinks on all of its paths
        return out

    subjects = [top]
    for c in top.calls():
        h = cx.F.fn(c.short) if c.short.startswith(VM) else None
        if h is not None and h.vis != "pub" and h is not top and h not in subjects and \
                any(x.short == VM + "pop_call_stack_on_error" for x in h.calls()):
            subjects.append(h)
    n = 0
    for g in subjects:
        gcfg = cx.cfg(g)
        unw = [c for c in g.calls() if c.short == VM + "pop_call_stack_on_error"]
        setips = {c.bb for c in g.calls() if c.short == VM + "set_ip"}
        # private helpers that resume at the catch point count as resumption
        for c in g.calls():
            h = cx.F.fn(c.short) if c.short.startswith(VM) else None
            if h is not None and h.vis != "pub" and any(x.short == VM + "set_ip" for x in h.calls()):
                setips.add(c.bb)
        # the top of the loop: the block that fetches the next instruction (else the entry)
        heads = [c.bb for c in g.calls() if c.short.endswith("InstructionReader as Iterator>::next")] or [0]
        for u in unw:
            for fld in FIELDS:
                n += 1
                r.instances += 1
                r.nontrivial += 1
                A = shrink_blocks(g, fld)
                before = set()
                for h0 in heads:
                    before |= gcfg.reachable({h0}, avoid=A)
                ok = True
                if u.bb in before or u.bb in heads:
                    p = gcfg.find_path(u.bb, lambda b: b in gcfg.exits, A | setips, include_src_succs=True)
                    ok = p is None
                if not ok and g is not top:
                    # the helper holds only the unwinder call: the caller may have shrunk the stack before calling it
                    tcfg = cx.cfg(top)
                    At = shrink_blocks(top, fld)
                    theads = [c.bb for c in top.calls() if c.short.endswith("InstructionReader as Iterator>::next")] or [0]
                    tbefore = set()
                    for h0 in theads:
                        tbefore |= tcfg.reachable({h0}, avoid=At)
                    sites = [c for c in top.calls() if c.short == g.qual]
                    ok = bool(sites) and all(c.bb not in tbefore for c in sites)
                r.sample({"in": g.qual[len(VM):], "unwinder_line": u.line, "field": fld, "shrunk_before_leaving": ok})
                if not ok:
                    r.add(Finding("R-BUILDERS-ON-ERROR", g.qual, f"{fld}:unwinder-to-return",
                                  f"an error can leave {g.qual[len(VM):]} through the unwinder call at line {u.line} without "
                                  f"self.{fld} being shrunk: a {'list / tuple / map' if fld == 'sequence_builders' else 'string'} "
                                  f"under construction when the error was raised stays behind in the VM after the failed run",
                                  g.file, u.line))
    r.floor("unwinder call x builder stack pairs", n, 2)
    r.analysed = {"pairs": n, "functions": [g.qual[len(VM):] for g in subjects]}
    return r


# ---------------------------------------------------------------------------------------------
# R-UNWIND-NO-RESULT (C04): frames discarded by the unwinder deliver no result to the frame that survives

def _clears_return_register(fn, du):
    """blocks of fn that store `None` into a `.return_value_register` field"""
    out = set()
    for b in fn.blocks:
        if b.cleanup:
            continue
        for st in b.stmts:
            if st[0] != "a" or "return_value_register" not in place_fields(st[1]):
                continue
            rv = st[2]
            for _ in range(4):     # through plain moves of a local
                l = op_local(rv[1]) if rv[0] == "use" else None
                d = du.single_def(l) if l is not None else None
                if not (d and d[2] == "assign"):
                    break
                rv = d[3]
            if rv[0] == "agg" and not rv[2] and "None" in repr(rv):
                out.add(b.idx)
    return out


def _derives_from_field(fn, du, local, field, limit=60):
    """is `local` computed (through assignments and calls, any number of definitions) from a place with `.field`?"""
    from ..mir import rv_places
    seen, work = set(), [local]
    while work and len(seen) < limit:
        l = work.pop()
        if l is None or l in seen:
            continue
        seen.add(l)
        for d in du.defs.get(l, []):
            if d[2] in ("assign", "partial") and not hasattr(d[3], "args"):
                places = rv_places(d[3])
            else:
                places = [op_place(a) for a in d[3].args]
            for pl in places:
                if pl is None:
                    continue
                if field in place_fields(pl):
                    return True
                work.append(pl[0])
    return False


def rule_unwind_no_result(cx, tier):
    r = RuleResult("R-UNWIND-NO-RESULT",
                   "a frame that the unwinder discards delivers no result: between the raise and the catch point no "
                   "register of the surviving frame is written (the catch register is written afterwards, by the "
                   "interpreter loop).  `v = f()` compiles to a Call whose result register is v's own register, so a "
                   "frame pop that stores its (null) 'return value' there changes a variable between the throw point "
                   "and the catch block")
    U = cx.need_fn(VM + "pop_call_stack_on_error")
    cfg = cx.cfg(U)
    cg = cx.cg
    writers = {f.name for f in cx.F.fns.values()
               if f.qual in (VM + "set_register",) }
    require(writers, "R-UNWIND-NO-RESULT: KotoVm::set_register not found")
    # direct element writes `self.registers[i] = ..` count too: functions (other than set_register) of the VM that call IndexMut on the value stack
    can_write = cg.reach_set(writers)
    du = cx.du(U)
    clears = _clears_return_register(U, du)
    dom = cfg.dominators()
    n = 0
    for c in U.calls():
        if c.bb not in cfg.reach or U.blocks[c.bb].cleanup:
            continue
        tgts = [t for t in cg.targets(c) if t in cx.F.fns]
        wt = [t for t in tgts if t in can_write]
        if not wt:
            continue
        n += 1
        r.instances += 1
        r.nontrivial += 1
        t = cx.F.fns[wt[0]]
        path = cg.path(t.name, writers) or [t.name]
        # (a) the caller's result register is withdrawn before the pop, on every path to it; a path around the store is
        #     fine when the branch that takes it tests the shape of the call stack (`if let [.., caller, _]`, `len() >= 2`,
        #     `get_mut(len - 2)`: no caller, nothing to write to)
        shape_tests = {b.idx for b in U.blocks if not b.cleanup and b.term[0] == "switch"
                       and _derives_from_field(U, du, op_base(b.term[1]), "call_stack")
                       and any(cfg.dominates(b.idx, cb) for cb in clears)} if clears else set()
        cleared = bool(clears) and cfg.find_path(0, lambda b: b == c.bb, avoid=clears | shape_tests,
                                                 include_src_succs=True) is None
        # (b) the callee takes a flag that the unwinder fixes to a constant: the write may be conditional on it -- not decided
        const_flag = any(op_const(a) is not None and U.crate.tstr(c.arg_ty(i)) == "bool" for i, a in enumerate(c.args))
        for i, a in enumerate(c.args):      # `pop_frame(None)`: an Option parameter fixed to None may be what disables the write
            l = op_local(a)
            d = du.single_def(l) if l is not None else None
            if d and d[2] == "assign" and d[3][0] == "agg" and not d[3][2] and "None" in repr(d[3][1]) \
                    and "option::Option<" in U.crate.tstr(c.arg_ty(i)):
                const_flag = True
        r.sample({"call": t.qual, "line": c.line, "reaches_set_register_via": [cx.F.fns[p].qual for p in path],
                  "result_register_withdrawn_before": cleared, "constant_flag_argument": const_flag})
        if cleared:
            continue
        if const_flag:
            r.undecided.append({"fn": U.qual, "call": t.qual, "why": "constant bool argument may disable the write"})
            continue
        r.add(Finding("R-UNWIND-NO-RESULT", U.qual, f"{t.qual[len(VM):] if t.qual.startswith(VM) else t.qual}:writes-result",
                      f"the unwinder discards a frame with {t.qual[len(VM):] if t.qual.startswith(VM) else t.qual}, which can "
                      f"store a return value into the calling frame's result register ({' -> '.join(cx.F.fns[p].qual.split('::')[-1] for p in path)}); "
                      f"the call's result register is an ordinary local in `v = f()`, so v is null in the catch block "
                      f"although the assignment never happened",
                      U.file, c.line, [cx.F.fns[p].qual for p in path]))
    r.analysed = {"unwinder": U.qual, "calls_that_can_reach_set_register": n,
                  "blocks_withdrawing_the_result_register": len(clears)}
    r.floor("frame-discarding calls in the unwinder", n, 1)
    return r


# ---------------------------------------------------------------------------------------------
# R-FRAME-SAVE-RESTORE (C12): what push_frame saves in the calling frame, pop_frame puts back

def rule_frame_save_restore(cx, tier):
    r = RuleResult("R-FRAME-SAVE-RESTORE",
                   "sibling agreement of push_frame and pop_frame: every field that push_frame saves in the calling frame "
                   "(return_instruction_ip, return_resume_ip, return_value_register) is read back by pop_frame (or a "
                   "private helper it calls), whoever pops the frame -- the interpreter's Return, the unwinder, or a native "
                   "entry that pops its barrier frame.  A field restored by only one of those callers leaves the others "
                   "with the callee's value: with `instruction_ip` that is the position that error traces and `debug` "
                   "report")
    push = cx.need_fn(VM + "push_frame")
    pop = cx.need_fn(VM + "pop_frame")
    saved = {}
    for b in push.blocks:
        if b.cleanup:
            continue
        for st in b.stmts:
            if st[0] == "a" and "*" in st[1][1]:
                fs = place_fields(st[1])
                if fs and cx.F and push.crate.tstr(push.local_ty(st[1][0])).endswith("Frame"):
                    saved.setdefault(fs[-1], st[-1] if isinstance(st[-1], int) else None)
    require(saved, "R-FRAME-SAVE-RESTORE: push_frame writes no field of the calling frame")
    # fields read in pop_frame and the private KotoVm helpers it calls (2 levels)
    scope = [pop]
    for _ in range(2):
        for g in list(scope):
            for c in g.calls():
                t = cx.F.fns.get(c.resolved)
                if t is not None and t.qual.startswith(VM) and t not in scope and t.qual != VM + "push_frame":
                    scope.append(t)
    read = set()
    from ..mir import rv_places
    for g in scope:
        for b in g.blocks:
            if b.cleanup:
                continue
            for st in b.stmts:
                if st[0] == "a":
                    for pl in rv_places(st[2]):
                        read.update(place_fields(pl))
            c = g.call_at(b.idx)
            if c is not None:
                for a in c.args:
                    pl = op_place(a)
                    if pl is not None:
                        read.update(place_fields(pl))
    r.analysed = {"fields_saved_by_push_frame": sorted(saved), "functions_searched_for_the_restore": [g.qual[len(VM):] for g in scope][:12]}
    r.floor("fields saved by push_frame in the calling frame", len(saved), 1)
    for f in sorted(saved):
        r.instances += 1
        r.nontrivial += 1
        ok = f in read
        r.sample({"field": f, "read_back_by_pop_frame": ok})
        if not ok:
            r.add(Finding("R-FRAME-SAVE-RESTORE", pop.qual, f"{f}:not-restored",
                          f"push_frame saves `{f}` in the calling frame but pop_frame never reads it back: callers that pop "
                          f"a frame themselves (native entries popping their barrier frame, the interpreter's Return) continue "
                          f"with the callee's value"
                          + (" -- `instruction_ip` then points into the finished callee, so the next error trace and `debug` "
                             "prefix name the wrong line" if "instruction_ip" in f else ""), pop.file, pop.line))
    return r
