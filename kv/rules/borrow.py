"""R-BORROW: no container guard is held across code that can take a conflicting guard (C06, C19)."""
from ..engine import Broken, Finding, RuleResult, require
from ..mir import line_of, op_base, op_local, op_place, place_fields

GUARD_DEFS = {"koto_memory::ptr_mut::Borrow": "shared", "koto_memory::ptr_mut::BorrowMut": "mut"}
PANICKING = {"koto_memory::KCell::borrow": "shared", "koto_memory::KCell::borrow_mut": "mut"}


def canon_ty(crate, idx, depth=0):
    """crate-independent structural name of a type"""
    t = crate.types[idx]
    k = t["k"]
    if depth > 6:
        return "…"
    if k in ("adt", "dyn", "closure", "fndef"):
        d = t.get("d")
        name = crate.defs[d] if d is not None else "?"
        if k == "dyn":
            return "dyn " + name.rsplit("::", 1)[-1]
        args = [canon_ty(crate, a, depth + 1) for a in t.get("a", [])]
        last = name.rsplit("::", 1)[-1]
        # drop allocator / hasher noise
        args = [a for a in args if a not in ("Global",)]
        return last + ("<" + ",".join(args) + ">" if args else "")
    if k in ("ref", "refmut", "ptr", "ptrmut"):
        return {"ref": "&", "refmut": "&mut ", "ptr": "*const ", "ptrmut": "*mut "}[k] + canon_ty(crate, t["a"][0], depth + 1)
    if k in ("slice", "array"):
        return "[" + canon_ty(crate, t["a"][0], depth + 1) + "]"
    if k == "tuple":
        return "(" + ",".join(canon_ty(crate, a, depth + 1) for a in t.get("a", [])) + ")"
    return t["s"]


class BorrowInfo:
    def __init__(self, cx):
        self.cx = cx
        F = cx.F
        # direct panicking borrow sites: fn name -> set((T, mode))
        self.direct = {}
        self.n_sites = 0
        for fn in F.fns.values():
            for c in fn.calls():
                m = PANICKING.get(c.short)
                if m is None or not c.ga:
                    continue
                T = canon_ty(fn.crate, c.ga[0])
                self.direct.setdefault(fn.name, set()).add((T, m))
                self.n_sites += 1
        self.kinds = set()
        for s in self.direct.values():
            self.kinds |= s
        # reverse reachability per (T, mode)
        self.reach = {}
        for kind in self.kinds:
            roots = {f for f, s in self.direct.items() if kind in s}
            self.reach[kind] = cx.cg.reach_set(roots)
        self.types = {T for T, _ in self.kinds}

    def conflicts(self, target, T, held):
        """does calling `target` possibly take a guard on T that conflicts with a held guard of mode `held`"""
        if target in self.reach.get((T, "mut"), ()):
            return "mut"
        if held == "mut" and target in self.reach.get((T, "shared"), ()):
            return "shared"
        return None

    def witness_path(self, target, T, mode):
        roots = {f for f, s in self.direct.items() if (T, mode) in s}
        p = self.cx.cg.path(target, roots)
        return [self.cx.F.fns[x].qual for x in p] if p else []


def guard_locals(fn, types_of_interest):
    out = {}
    c = fn.crate
    for i, l in enumerate(fn.locals):
        t = c.types[l[0]]
        if t["k"] == "adt":
            mode = GUARD_DEFS.get(c.defs[t["d"]])
            if mode and t.get("a"):
                T = canon_ty(c, t["a"][0])
                if T in types_of_interest:
                    out[i] = (T, mode)
    return out


def live_guards(cx, fn, guards):
    """forward may-be-live dataflow: block -> set of guard locals live at the block's terminator"""
    cfg = cx.cfg(fn)
    n = len(fn.blocks)
    inset = [set() for _ in range(n)]
    at_term = [set() for _ in range(n)]
    work = list(cfg.reach)
    inwork = set(work)
    while work:
        b = work.pop()
        inwork.discard(b)
        blk = fn.blocks[b]
        live = set(inset[b])
        for st in blk.stmts:
            if st[0] != "a":
                continue
            rv = st[2]
            # a move of a guard into another local transfers it
            if rv[0] == "use" and rv[1][0] == "m":
                src = rv[1][1]
                if not src[1] and src[0] in live:
                    live.discard(src[0])
                    if not st[1][1] and st[1][0] in guards:
                        live.add(st[1][0])
            elif rv[0] == "agg":
                for o in rv[2]:
                    if o[0] == "m" and not o[1][1] and o[1][0] in live:
                        live.discard(o[1][0])  # moved into an aggregate (returned / stored): no longer tracked
        t = blk.term
        out = set(live)
        if t[0] == "call":
            c = t[1]
            for a in c["args"]:
                if a[0] == "m" and not a[1][1] and a[1][0] in out:
                    out.discard(a[1][0])
            at_term[b] = set(out)
            d = c["dest"]
            if not d[1] and d[0] in guards:
                out.add(d[0])
        elif t[0] == "drop":
            at_term[b] = set(out)
            p = t[1]
            if not p[1]:
                out.discard(p[0])
        else:
            at_term[b] = set(out)
        for s in cfg.succ[b]:
            if not out <= inset[s]:
                inset[s] |= out
                if s not in inwork:
                    work.append(s)
                    inwork.add(s)
    return at_term


# Reviewed exemptions: one named (function, callee) pair each, with the reason the conflict is infeasible.
EXEMPT = {
    ("koto_serde::<MapDeserializer as MapAccess>::next_key_seed", "koto_serde::Deserializer::new"):
        "the argument is a map *key* (ValueKey: never an Object), so the Object arm of Deserializer::new — the only "
        "path to error formatting and hence to user code — cannot be taken for this call",
}

FRESH_CTORS = ("with_data", "with_capacity", "new", "default", "from_slice", "with_type", "with_contents",
               "from_iter", "from", "into")


def _handle_is_fresh(cx, fn, call):
    """is the receiver of a handle method (data/data_mut/borrow…) a container created in this function"""
    if not call.args:
        return False
    l = op_base(call.args[0])
    if l is None:
        return False
    du = cx.du(fn)
    root = du.root(l, through_calls=("ops::deref::Deref::deref",))
    if root[0] == "field":
        return False
    if root[0] == "call":
        c = root[1]
        last = c.short.rsplit("::", 1)[-1]
        if last in FRESH_CTORS:
            # fresh unless an existing handle is among the arguments
            for i, a in enumerate(c.args):
                s = fn.crate.tstr(c.arg_ty(i))
                if "KList" in s or "KMap" in s or "KValue" in s or "PtrMut" in s or "Ptr<" in s:
                    return False
            return True
    return False


def _distinct_instances(cx, fn, g, call):
    """the guard's handle and the receiver of the direct handle method are proven to be different containers: the call
    lies on the false edge of `a.is_same_instance(b)` for exactly these two handles"""
    from .narrow import edge_side
    du = cx.du(fn)
    gd = du.single_def(g)
    if gd is None or gd[2] != "call" or not gd[3].args or not call.args:
        return False

    from .narrow import Sym, place_fields as pf
    sym = Sym(cx, fn)

    def handle(op):
        p = op_place(op)
        if p is None:
            return None
        return sym.canon(p[0], pf(p))
    h1, h2 = handle(gd[3].args[0]), handle(call.args[0])
    if h1 is None or h2 is None or h1 == h2:
        return False
    cfg = cx.cfg(fn)
    for c in fn.calls():
        if c.short.rsplit("::", 1)[-1] != "is_same_instance" or len(c.args) < 2 or c.dest[1]:
            continue
        if {handle(c.args[0]), handle(c.args[1])} != {h1, h2}:
            continue
        if (c.bb == call.bb or cfg.dominates(c.bb, call.bb)) and edge_side(cx, fn, cfg, c.bb, c.dest[0], call.bb) == "false":
            return True
    return False


def rule_borrow(cx, tier, cfg_name="rc"):
    r = RuleResult("R-BORROW", "no guard of a shared container cell (list data, map data, metamap, iterator, module "
                               "loader/cache, file …) is held across a call that can take a conflicting guard of the "
                               "same cell type — under rc that is a RefCell panic, under arc a self-deadlock")
    bi = BorrowInfo(cx)
    require(bi.n_sites >= 20, f"R-BORROW: only {bi.n_sites} panicking borrow sites found")
    n_fn = n_pairs = n_guard_fns = 0
    for fn in cx.F.fns.values():
        if fn.crate.uname in ("koto_test_utils", "koto_derive"):
            continue
        n_fn += 1
        guards = guard_locals(fn, bi.types)
        if not guards:
            continue
        n_guard_fns += 1
        at_term = live_guards(cx, fn, guards)
        label = cx.label(fn)
        seen_groups = set()
        for c in fn.calls():
            live = at_term[c.bb]
            if not live:
                continue
            if c.short.startswith("koto_memory::"):
                continue
            targets = [t for t in cx.cg.targets(c) if t in cx.F.fns]
            for g in live:
                T, held = guards[g]
                n_pairs += 1
                r.instances += 1
                hit = None
                for t in targets:
                    m = bi.conflicts(t, T, held)
                    if m:
                        hit = (t, m)
                        break
                if hit is None:
                    continue
                r.nontrivial += 1
                t, m = hit
                tq = cx.F.fns[t].qual
                # may-alias filter for direct handle methods on a container created in this function
                if _handle_is_fresh(cx, fn, c) and bi.direct.get(t):
                    r.sample({"fn": label, "guard": f"{T}:{held}", "call": c.short, "line": c.line,
                              "verdict": "ok: receiver is a fresh container"})
                    continue
                if bi.direct.get(t) and _distinct_instances(cx, fn, g, c):
                    r.sample({"fn": label, "guard": f"{T}:{held}", "call": c.short, "line": c.line,
                              "verdict": "ok: the two handles are tested to be different instances"})
                    continue
                if (fn.qual, c.short) in EXEMPT:
                    r.sample({"fn": label, "guard": f"{T}:{held}", "call": c.short, "line": c.line,
                              "verdict": "reviewed exemption: " + EXEMPT[(fn.qual, c.short)]})
                    continue
                # name the conflicting callee: the workspace function called, or (for std generics such as
                # Iterator::map / sort_by / retain) the workspace callback they run
                callee_label = c.short if (c.resolved in cx.F.fns or c.virtual) else tq
                grp = (T, held, callee_label)
                if grp in seen_groups:
                    continue
                seen_groups.add(grp)
                wp = bi.witness_path(t, T, m)
                gname = fn.local_name(g) or f"_{g}"
                r.add(Finding("R-BORROW", label, f"{_short_T(T)}:{held}->{_short_callee(cx.label(cx.F.fns[t]) if callee_label == tq else callee_label)}",
                              f"guard `{gname}` ({held} borrow of {_short_T(T)}) is live across the call to {c.short}, "
                              f"which can reach a {m} borrow of the same cell type ({' -> '.join(x.rsplit('::', 2)[-2] + '::' + x.rsplit('::', 1)[-1] for x in wp[:5])})",
                              fn.file, c.line,
                              [f"guard live at {fn.file}:{c.line}", f"call {c.short}", "reaches: " + " -> ".join(wp[:8])]))
    r.analysed = {"functions": n_fn, "functions_with_guards": n_guard_fns, "guard_call_pairs": n_pairs,
                  "panicking_borrow_sites": bi.n_sites, "cell_types": sorted(_short_T(t) for t in bi.types),
                  "configuration": cfg_name}
    r.floor("live guard x call pairs", n_pairs, 75)
    return r


def _short_T(T):
    return T.replace("SmallVec<[KValue]>", "ValueVec").replace("HashMap<PathBuf,Option<KMap>,BuildHasherDefault<FxHasher>>", "ModuleCache")


def _short_callee(s):
    if s.startswith("<"):
        return s
    parts = s.split("::")
    return "::".join(parts[-2:])


def rule_borrow_arc(cx, tier):
    return rule_borrow(cx, tier, "arc")


# ---------------------------------------------------------------------------------------------
# R-RECURSIVE-READ (C19): no second read lock on a container whose read lock the thread already holds

def rule_recursive_read(cx, tier):
    r = RuleResult("R-RECURSIVE-READ", "under the multi-threaded build a container's lock is a fair RwLock: a thread that "
                                       "holds a read lock and asks for another read lock on the same container blocks behind a "
                                       "writer that queued in between, and the writer waits for the first read lock -- a "
                                       "deadlock on a single container. So while a shared guard of a list / map handle is live, "
                                       "no method of the *same handle* that takes its own (shared) lock is called")
    from .narrow import Sym, place_fields as pf
    bi = BorrowInfo(cx)
    n_pairs = 0
    for fn in cx.F.fns.values():
        if fn.crate.uname != "koto_runtime" or fn.derived:
            continue
        guards = guard_locals(fn, bi.types)
        shared = {g: v for g, v in guards.items() if v[1] == "shared" and v[0] in ("SmallVec<[KValue]>", "ValueMap")}
        if not shared:
            continue
        at_term = live_guards(cx, fn, guards)
        du = cx.du(fn)
        sym = Sym(cx, fn)
        label = cx.label(fn)

        def handle_of_guard(g):
            d = du.single_def(g)
            if d is None or d[2] != "call" or not d[3].args:
                return None
            c = d[3]
            if not bi.direct.get(c.resolved) and c.short.rsplit("::", 1)[-1] not in ("data", "data_mut"):
                return None
            p = op_place(c.args[0])
            return sym.canon(p[0], pf(p)) if p is not None else None
        for c in fn.calls():
            live = [g for g in at_term[c.bb] if g in shared]
            if not live or not c.args:
                continue
            t = c.resolved
            if t not in cx.F.fns:
                continue
            tq = cx.F.fns[t]
            if not (tq.qual.startswith("koto_runtime::KList::") or tq.qual.startswith("koto_runtime::KMap::")):
                continue
            # does the method take the data lock itself (directly or through one wrapper level)
            takes = any(T in ("SmallVec<[KValue]>", "ValueMap") for (T, m) in bi.direct.get(t, ())) or \
                any(any(T in ("SmallVec<[KValue]>", "ValueMap") for (T, m) in bi.direct.get(c2.resolved, ()))
                    for c2 in tq.calls())
            if not takes:
                continue
            p = op_place(c.args[0])
            h2 = sym.canon(p[0], pf(p)) if p is not None else None
            for g in live:
                n_pairs += 1
                r.instances += 1
                h1 = handle_of_guard(g)
                if h1 is None or h2 is None:
                    continue
                if h1 != h2:
                    # may-alias clause: two handles of the same container type that both come from outside (operands of
                    # `l + l`, `l == l`) can be one container; only a dominating `is_same_instance` test on its false
                    # outcome shows that they are not
                    g_ty = shared[g][0]
                    takes_same = any(T == g_ty and m == "shared" for (T, m) in bi.direct.get(t, ())) or \
                        any(any(T == g_ty and m == "shared" for (T, m) in bi.direct.get(c2.resolved, ())) for c2 in tq.calls())
                    from .memory import _is_fresh_local, _named_base
                    b1 = _named_base(fn, du, op_base(du.single_def(g)[3].args[0])) if du.single_def(g) else None
                    b2 = _named_base(fn, du, op_base(c.args[0]))
                    if not takes_same or b1 is None or b2 is None or _is_fresh_local(fn, du, b1[1]) or \
                            _is_fresh_local(fn, du, b2[1]) or _distinct_instances(cx, fn, g, c):
                        continue
                    # only handles of the same type can alias
                    if (fn.local_tstr(b1[1]) or "").lstrip("&") != (fn.local_tstr(b2[1]) or "").lstrip("&"):
                        continue
                    r.nontrivial += 1
                    r.add(Finding("R-RECURSIVE-READ", label, f"{h1}~{h2}:{tq.qual.rsplit('::', 1)[-1]}",
                                  f"`{h2}.{tq.qual.rsplit('::', 1)[-1]}()` takes a read lock while a read guard of `{h1}` is held "
                                  f"and nothing shows that `{h1}` and `{h2}` are different containers (`x + x`, `x == x`): if "
                                  f"they are one container and a writer queues in between, reader and writer wait for each "
                                  f"other", fn.file, c.line))
                    continue
                r.nontrivial += 1
                r.add(Finding("R-RECURSIVE-READ", label, f"{h1}:{tq.qual.rsplit('::', 1)[-1]}",
                              f"`{h1}.{tq.qual.rsplit('::', 1)[-1]}()` takes the lock of `{h1}` while this function already holds "
                              f"a read guard of the same container (`{fn.local_name(g) or '_' + str(g)}`): with a writer "
                              f"queued in between, reader and writer wait for each other", fn.file, c.line))
    r.analysed = {"shared_guard_x_handle_method_pairs": n_pairs}
    r.floor("live shared guard x handle method call pairs", n_pairs, 3)
    return r


# ---------------------------------------------------------------------------------------------
# R-LEN-THEN-INDEX (C19): an index is used under the lock acquisition it was validated under

def rule_len_then_index(cx, tier):
    r = RuleResult("R-LEN-THEN-INDEX",
                   "a panicking `[]` on the data of a shared list (`l.data()[i]`, `l.data_mut()[i]`) does not use an index "
                   "that was computed from `l.len()` of the same handle: `len()` takes and releases its own lock, so under "
                   "the multi-threaded build another thread can shrink the list between the validation and the indexing "
                   "(index out of bounds panic); the length has to be read through the guard that is then indexed")
    from .narrow import Sym
    from .vm import _backward_slice
    LIST = "koto_runtime::KList::"
    n = 0
    for fn in cx.F.fns.values():
        if fn.crate.uname != "koto_runtime" or fn.derived:
            continue
        calls = fn.calls()
        idx_calls = [c for c in calls if (c.short or "").endswith((" as Index>::index", " as IndexMut>::index_mut",
                                                                     "Index::index", "IndexMut::index_mut"))
                     and len(c.args) >= 2]
        if not idx_calls:
            continue
        du = cx.du(fn)
        sym = Sym(cx, fn)

        def handle(c):
            p = op_place(c.args[0]) if c.args else None
            return sym.canon(p[0], place_fields(p)) if p is not None else None
        for c in idx_calls:
            rl = op_base(c.args[0])
            il = op_base(c.args[1])
            if rl is None or il is None:
                continue
            _, _, rcalls = _backward_slice(fn, du, rl, stop=("data", "data_mut"))
            owners = {handle(x) for x in rcalls if x.short in (LIST + "data", LIST + "data_mut")}
            owners.discard(None)
            if not owners:
                continue
            n += 1
            r.instances += 1
            _, _, icalls = _backward_slice(fn, du, il)
            lens = [x for x in icalls if x.short == LIST + "len" and handle(x) in owners]
            r.sample({"fn": cx.label(fn), "line": c.line, "list": sorted(owners), "index_from_separate_len": bool(lens)}, limit=8)
            if lens:
                r.nontrivial += 1
                h = sorted(owners)[0]
                r.add(Finding("R-LEN-THEN-INDEX", cx.label(fn), f"{h}:len-then-index",
                              f"`{h}.data()[..]` is indexed with a value validated against `{h}.len()` (line {lens[0].line}), "
                              f"a separate lock acquisition: with the arc feature a concurrent pop / clear between the two "
                              f"makes the index panic", fn.file, c.line))
    r.floor("panicking index sites on shared list data", n, 3)
    r.analysed = {"index_sites_on_list_data": n}
    return r
