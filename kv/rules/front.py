"""Front-end rules: R-INDENT, R-INDENT-CHAIN (C10); R-FMT-FIELDS, R-FMT-VARIANTS (C11)."""
from ..engine import Broken, Finding, RuleResult, require
from ..mir import line_of, op_base, op_int, op_local, op_place, place_fields, rv_places
from .common import operand_agg, rv_variant

EI = "koto_parser::error::ExpectedIndentation"
ERR_CTORS = ("koto_parser::Parser::error", "koto_parser::Parser::consume_token_and_error",
             "koto_parser::Parser::consume_token_on_same_line_and_error", "koto_parser::Parser::error_with_span",
             "koto_parser::Parser::error_with_span_of", "koto_parser::Parser::make_error",
             "koto_parser::Parser::make_error_with_span")

# The constructs the property lists -> the ExpectedIndentation variant that must report their missing block / RHS.
REQUIRED = {
    "FunctionBody": "function body",
    "ThenKeywordOrBlock": "if header",
    "ElseIfBlock": "else if header",
    "ElseBlock": "else header",
    "ForBody": "for header",
    "LoopBody": "loop header",
    "WhileBody": "while header",
    "UntilBody": "until header",
    "TryBody": "try header",
    "CatchBody": "catch header",
    "FinallyBody": "finally header",
    "MatchArm": "match header",
    "SwitchArm": "switch header",
    "AssignmentExpression": "`=` at a line end",
    "RhsExpression": "binary operator at a line end",
}


def _ctor_calls(cx, fn):
    out = []
    for c in fn.calls():
        if c.short in ERR_CTORS and c.ga:
            e = fn.crate.tdef(c.ga[0]) or fn.crate.tstr(c.ga[0])
            out.append((c, e))
    return out


def rule_indent(cx, tier):
    r = RuleResult("R-INDENT", "for each construct the property lists, the parser path on which the block / right-hand "
                               "side is missing constructs an error of the ExpectedIndentation class, and nothing else")
    a = cx.F.adts.get(EI)
    require(a is not None, "R-INDENT: ExpectedIndentation enum not found")
    sites = {}   # variant -> [(fn, call)]
    n_ctor = 0
    for fn in cx.F.crate_fns("koto_parser"):
        du = None
        for c, e in _ctor_calls(cx, fn):
            n_ctor += 1
            if e != EI:
                continue
            if du is None:
                du = cx.du(fn)
            # the variant: aggregate assigned to the error argument (2nd argument: self is first)
            v = None
            for arg in c.args[1:2]:
                ag = operand_agg(du, arg)
                if ag:
                    v = ag[1]
            sites.setdefault(v or "?", []).append((fn, c))
    r.analysed = {"error_constructor_calls": n_ctor, "expected_indentation_sites": sum(len(v) for v in sites.values()),
                  "variants_with_sites": sorted(k for k in sites)}
    r.floor("parser error constructor call sites", n_ctor, 75)
    for variant, what in REQUIRED.items():
        r.instances += 1
        r.nontrivial += 1
        if variant not in sites:
            r.add(Finding("R-INDENT", "koto_parser::Parser", f"missing:{variant}", f"no parser path constructs "
                          f"ExpectedIndentation::{variant}: a program cut off after a {what} is no longer reported in "
                          f"the indentation-error class", "crates/parser/src/parser.rs", 0))
    # (ii) the path on which the block is missing reaches only indentation-class constructors
    for variant, lst in sorted(sites.items()):
        if variant not in REQUIRED:
            continue
        for fn, c in lst:
            r.instances += 1
            r.nontrivial += 1
            res = _missing_edge_region(cx, fn, c)
            if res is None:
                r.undecided.append(f"{fn.qual}:{c.line} no dominating Option test found for {variant}")
                continue
            edge, region = res
            others = [(c2, e2) for c2, e2 in _ctor_calls(cx, fn) if c2.bb in region and e2 != EI]
            verdict = "ok"
            if others:
                c2, e2 = others[0]
                verdict = "violation"
                r.add(Finding("R-INDENT", fn.qual, f"{variant}:other-class", f"on the path where the "
                              f"{REQUIRED[variant]}'s block / right-hand side is missing, the parser can construct a "
                              f"{e2.rsplit('::', 1)[-1]} instead of ExpectedIndentation::{variant}: some cut-off inputs "
                              f"are no longer indentation errors", fn.file, c2.line,
                              [f"missing-block edge bb{edge} at {fn.file}:{line_of(fn, edge)}",
                               f"{c2.short}::<{e2}> at {fn.file}:{c2.line}"]))
            r.sample({"fn": fn.qual, "variant": variant, "line": c.line, "missing_edge": edge,
                      "region_blocks": len(region), "verdict": verdict}, limit=20)
    return r


def _missing_edge_region(cx, fn, site):
    """(edge block, region): the nearest switch on an Option/bool outcome that dominates the error site and on whose
    'missing' side the site lies; region = blocks reachable from that edge"""
    cfg = cx.cfg(fn)
    du = cx.du(fn)
    dom = cfg.dominators().get(site.bb, set())
    best = None
    for b in dom:
        t = fn.blocks[b].term
        if t[0] != "switch" or b == site.bb:
            continue
        edges = [tb for _, tb in t[2]] + [t[3]]
        # the site must lie on exactly one side
        sides = [e for e in set(edges) if e == site.bb or cfg.dominates(e, site.bb)]
        if len(sides) != 1:
            continue
        # prefer the closest dominator (largest dominator set); a test of the outcome of a parse_*/consume_* call
        # (the block / expression parse that came back empty) takes precedence over token peeks nested under it
        depth = len(cfg.dominators().get(b, ()))
        outcome = _tests_parse_outcome(cx, fn, du, b)
        key = (1 if outcome else 0, depth)
        if best is None or key > best[0]:
            best = (key, sides[0])
    if best is None:
        return None
    edge = best[1]
    return edge, cfg.reachable({edge})


def _tests_parse_outcome(cx, fn, du, bb):
    """does the switch in block bb test the Option/Result produced by a parser method (through `?`)"""
    t = fn.blocks[bb].term
    l = op_base(t[1])
    if l is None:
        return False
    d = du.single_def(l)
    if d is None or d[2] != "assign" or d[3][0] != "discr":
        return False
    base = d[3][1][0]
    root = du.root(base, through_calls=("Try::branch",))
    if root[0] == "field":
        root = root[1]
    if root[0] == "call":
        c = root[1]
        tf = cx.F.fns.get(c.resolved)
        if tf is not None and tf.qual.startswith("koto_parser::Parser::") and \
                (tf.method.startswith("parse_") or tf.method.startswith("consume_")):
            rt = tf.crate.tstr(tf.local_ty(0))
            return "Option<" in rt
    return False


def rule_indent_chain(cx, tier):
    r = RuleResult("R-INDENT-CHAIN", "the indentation-error flag survives every wrapper: each is_indentation_error() "
                                     "delegates to the wrapped error, and koto::Error computes its flag from the "
                                     "loader error before stringifying it")
    fns = [f for f in cx.F.fns.values() if f.method == "is_indentation_error" and f.kind != "Closure"]
    r.analysed = {"is_indentation_error_fns": sorted(f.qual for f in fns)}
    r.floor("is_indentation_error implementations", len(fns), 3)
    base = cx.need_fn("koto_parser::Error::is_indentation_error")
    for fn in fns:
        r.instances += 1
        r.nontrivial += 1
        if fn is base:
            ok = _base_flag_ok(cx, fn)
            if not ok:
                r.add(Finding("R-INDENT-CHAIN", fn.qual, "base", "the parser error's flag is not `true` exactly on "
                              "ErrorKind::ExpectedIndentation", fn.file, fn.line))
            r.sample({"fn": fn.qual, "kind": "base", "ok": ok})
            continue
        inner = [c for c in fn.calls() if c.short.endswith("::is_indentation_error") and c.resolved in cx.F.fns]
        if fn.qual == "koto::Error::is_indentation_error":
            # reads the stored flag
            reads = any("is_indentation_error" in place_fields(pl) for b in fn.blocks if not b.cleanup
                        for st in b.stmts if st[0] == "a" for pl in rv_places(st[2]))
            if not reads:
                r.add(Finding("R-INDENT-CHAIN", fn.qual, "field", "koto::Error::is_indentation_error no longer reads "
                              "the stored flag", fn.file, fn.line))
            r.sample({"fn": fn.qual, "kind": "stored flag", "ok": reads})
            continue
        if not inner:
            r.add(Finding("R-INDENT-CHAIN", fn.qual, "delegate", "this wrapper no longer delegates to the wrapped "
                          "error's is_indentation_error()", fn.file, fn.line))
            continue
        c = inner[0]
        flows = (c.dest[0] == 0) or _flows_to_ret(cx, fn, c.dest[0])
        if not flows:
            r.add(Finding("R-INDENT-CHAIN", fn.qual, "result", "the wrapped error's flag is computed but does not reach "
                          "the return value", fn.file, c.line))
        # no constant `true` on another edge
        r.sample({"fn": fn.qual, "kind": "wrapper", "delegates_to": c.short, "flows_to_return": flows})
    # koto::Error: the flag is computed from the loader error, and runtime compile errors are converted, not stringified
    conv = cx.F.fn("koto::<Error as From<ModuleLoaderError>>::from")
    require(conv is not None, "R-INDENT-CHAIN: koto::Error: From<ModuleLoaderError> not found")
    r.instances += 1
    r.nontrivial += 1
    calls = [c for c in conv.calls() if c.short == "koto_bytecode::ModuleLoaderError::is_indentation_error"]
    du = cx.du(conv)
    ok = False
    for b in conv.blocks:
        if b.cleanup:
            continue
        for st in b.stmts:
            if st[0] == "a" and st[2][0] == "agg" and st[2][1][0] == "adt" and st[2][1][2] == "CompileError":
                names = st[2][1][3]
                if "is_indentation_error" in names:
                    o = st[2][2][names.index("is_indentation_error")]
                    l = op_local(o)
                    root = du.root(l) if l is not None else None
                    if root and root[0] == "call" and root[1] in calls:
                        ok = True
    if not ok:
        r.add(Finding("R-INDENT-CHAIN", conv.qual, "flag", "koto::Error::CompileError.is_indentation_error is not "
                      "computed from ModuleLoaderError::is_indentation_error()", conv.file, conv.line))
    r.sample({"fn": conv.qual, "flag_from_loader_error": ok})
    conv2 = cx.F.fn("koto::<Error as From<Error>>::from")
    if conv2 is None:
        cands = [f for f in cx.F.fns.values() if f.qual.startswith("koto::<Error as From<") and f.method == "from"
                 and "koto_runtime" in cx.F.impls[f.impl]["crate"].tstr(cx.F.impls[f.impl]["targs"][0])]
        conv2 = cands[0] if cands else None
    require(conv2 is not None, "R-INDENT-CHAIN: koto::Error: From<koto_runtime::Error> not found")
    r.instances += 1
    r.nontrivial += 1
    keeps = any(c.resolved == conv.name for c in conv2.calls())
    if not keeps:
        r.add(Finding("R-INDENT-CHAIN", conv2.qual, "compile-error", "a runtime CompileError is no longer converted "
                      "through From<ModuleLoaderError> (which computes the flag) but stringified", conv2.file, conv2.line))
    r.sample({"fn": conv2.qual, "converts_compile_errors": keeps})
    return r


def _flows_to_ret(cx, fn, local):
    du = cx.du(fn)
    for d in du.defs.get(0, []):
        if d[2] == "assign" and d[3][0] == "use":
            l = op_base(d[3][1])
            seen = 0
            while l is not None and seen < 6:
                if l == local:
                    return True
                dd = du.single_def(l)
                if dd is None or dd[2] != "assign" or dd[3][0] != "use":
                    break
                l = op_base(dd[3][1])
                seen += 1
    return False


def _base_flag_ok(cx, fn):
    """_0 = true only on the ExpectedIndentation edge of the ErrorKind switch"""
    a = cx.F.adts.get("koto_parser::error::ErrorKind")
    if a is None:
        return False
    want = None
    for v in a["variants"]:
        if v["name"] == "ExpectedIndentation":
            want = v["discr"]
    cfg = cx.cfg(fn)
    for b in fn.blocks:
        if b.cleanup or b.term[0] != "switch":
            continue
        t = b.term
        tgt = {v: tb for v, tb in t[2]}
        if want in tgt:
            # the target block assigns true, the otherwise block assigns false
            def val(bb):
                for st in fn.blocks[bb].stmts:
                    if st[0] == "a" and st[1][0] == 0 and st[2][0] == "use":
                        return op_int(st[2][1])
                return None
            return val(tgt[want]) == 1 and val(t[3]) == 0 and len(t[2]) == 1
    return False


# ---------------------------------------------------------------------------------------------
# R-FMT-FIELDS / R-FMT-VARIANTS

NODE = "koto_parser::node::Node"
# Fields the parser derives from other syntax (no independent syntactic content): one line each.
DERIVED_FIELDS = {
    ("koto_parser::node::Function", "local_count"): "count of locals, derived from the body",
    ("koto_parser::node::Function", "accessed_non_locals"): "capture list, derived from the body",
    ("koto_parser::node::Function", "is_generator"): "derived from the presence of yield in the body",
    ("koto_parser::node::Node::MainBlock", "local_count"): "count of locals, derived from the body",
    # literal text is re-emitted from the source by span (FormatContext::source_slice), not from the parsed value
    ("koto_parser::node::Node::SmallInt", "0"): "number literal: copied from the source text by span",
    ("koto_parser::node::Node::Int", "0"): "number literal: copied from the source text by span",
    ("koto_parser::node::Node::Float", "0"): "number literal: copied from the source text by span",
    ("koto_parser::node::Node::Debug", "expression_string"): "the debug text is the source text of the expression, which "
                                                               "is formatted itself",
    # opaque index newtypes (handles into the AST / constant pool): read through their accessors inside koto_parser
    ("koto_parser::ast::AstIndex", "0"): "index newtype, dereferenced by Ast::node()",
    ("koto_parser::constant_pool::ConstantIndex", "0"): "index newtype, dereferenced by ConstantPool accessors",
}


def _ast_adts(cx):
    """ADTs of koto_parser reachable from Node by type walk"""
    seen = set()
    work = [NODE]
    while work:
        n = work.pop()
        if n in seen:
            continue
        a = cx.F.adts.get(n)
        if a is None or a["crate"].uname != "koto_parser":
            continue
        seen.add(n)
        c = a["crate"]
        for v in a["variants"]:
            for f in v["fields"]:
                stack = [f[1]]
                while stack:
                    ti = stack.pop()
                    t = c.types[ti]
                    if t["k"] == "adt":
                        work.append(c.defs[t["d"]])
                    stack.extend(t.get("a", []))
    return seen


def rule_fmt_fields(cx, tier):
    r = RuleResult("R-FMT-FIELDS", "the formatter reads every syntax-carrying field of every AST payload type: a field "
                                   "never read cannot influence the output, so two programs differing only there "
                                   "would format identically")
    adts = _ast_adts(cx)
    require(NODE in adts, "R-FMT-FIELDS: koto_parser::node::Node not found")
    # census of field reads in koto_format
    reads = set()   # (adt, variant or None, field name)
    n_fn = 0
    for fn in cx.F.crate_fns("koto_format"):
        n_fn += 1
        c = fn.crate
        places = []
        for b in fn.blocks:
            if b.cleanup:
                continue
            for st in b.stmts:
                if st[0] == "a":
                    places.extend(rv_places(st[2]))
            t = b.term
            if t[0] == "call":
                for a in t[1]["args"]:
                    p = op_place(a)
                    if p is not None:
                        places.append(p)
            elif t[0] == "switch":
                p = op_place(t[1])
                if p is not None:
                    places.append(p)
        for pl in places:
            variant = None
            for e in pl[1]:
                if isinstance(e, list) and e[0] == "v":
                    variant = e[1]
                elif isinstance(e, list) and e[0] == "f" and len(e) > 3:
                    adt = c.defs[e[3]]
                    reads.add((adt, variant, e[2]))
                    variant = None
                else:
                    variant = None
    r.analysed = {"ast_types": len(adts), "format_functions": n_fn, "distinct_field_reads": len(reads)}
    r.floor("koto_format functions", n_fn, 45)
    n_fields = 0
    for name in sorted(adts):
        a = cx.F.adts[name]
        for v in a["variants"]:
            for f in v["fields"]:
                n_fields += 1
                r.instances += 1
                vname = v["name"] if a["kind"] == "enum" else None
                key_adt = name + ("::" + vname if vname else "")
                if (key_adt, f[0]) in DERIVED_FIELDS or (name, f[0]) in DERIVED_FIELDS:
                    continue
                r.nontrivial += 1
                hit = (name, vname, f[0]) in reads
                if not hit:
                    short = key_adt.replace("koto_parser::", "")
                    r.add(Finding("R-FMT-FIELDS", "koto_format", f"{short}.{f[0]}", f"the formatter never reads "
                                  f"{short}.{f[0]}: programs that differ only in this field are formatted identically, "
                                  f"so formatting cannot preserve it", a["file"], a["line"]))
                r.sample({"type": key_adt, "field": f[0], "read_by_formatter": hit}, limit=12)
    r.analysed["ast_fields"] = n_fields
    r.floor("AST payload fields", n_fields, 75)
    return r


def rule_fmt_variants(cx, tier):
    r = RuleResult("R-FMT-VARIANTS", "format_node has its own arm for every Node variant (no wildcard arm)")
    a = cx.F.adts.get(NODE)
    require(a is not None, "R-FMT-VARIANTS: Node not found")
    variants = [v["name"] for v in a["variants"]]
    cands = [f for f in cx.F.crate_fns("koto_format") if f.method == "format_node"]
    require(cands, "R-FMT-VARIANTS: format_node not found in koto_format")
    fn = cands[0]
    ms = cx.F.hir_matches.get(fn.name, [])
    best = None
    for m in ms:
        names = set()
        wildcard = False
        for arm in m["arms"]:
            pat = arm[0]
            for alt in pat.split("|"):
                alt = alt.strip()
                if alt in ("_",) or (alt.isidentifier() and alt[0].islower()):
                    wildcard = True
                head = alt.split("(")[0].split("{")[0].strip()
                head = head.rsplit("::", 1)[-1]
                if head in variants:
                    names.add(head)
        if best is None or len(names) > len(best[0]):
            best = (names, wildcard, m["line"])
    require(best is not None and len(best[0]) >= 10, "R-FMT-VARIANTS: the match over Node in format_node was not found")
    names, wildcard, line = best
    r.analysed = {"node_variants": len(variants), "variants_with_arm": len(names), "wildcard_arm": wildcard}
    for v in variants:
        r.instances += 1
        r.nontrivial += 1
        if v not in names:
            r.add(Finding("R-FMT-VARIANTS", fn.qual, v, f"Node::{v} has no arm of its own in format_node"
                          + (" (it falls into a wildcard arm)" if wildcard else ""), fn.file, line))
    r.sample({"fn": fn.qual, "match_line": line, "arms_cover": len(names), "of": len(variants), "wildcard": wildcard})
    return r


# ---------------------------------------------------------------------------------------------
# R-COLUMN-BYTES (C06, C11): a span column is not a byte offset

def rule_column_bytes(cx, tier):
    r = RuleResult("R-COLUMN-BYTES", "`Position.column` counts characters / display columns (the lexer advances it by "
                                     "`width()` and by character counts), so it never reaches the bounds of a `str` slice "
                                     "as a byte offset: slicing the source at line_offset + column cuts at the wrong byte "
                                     "-- or inside a character, which panics -- whenever a multi-byte character precedes "
                                     "it on the line")
    from .narrow import Sym, leaves_of, _short
    F = cx.F
    # producer side: how the lexer advances columns
    n_width = n_bytes = 0
    for fn in F.fns.values():
        if fn.crate.uname != "koto_lexer" or fn.derived:
            continue
        sym = None
        for b in fn.blocks:
            if b.cleanup:
                continue
            for st in b.stmts:
                if st[0] == "a" and place_fields(st[1]) and place_fields(st[1])[-1] == "column" and st[2][0] == "use":
                    sym = sym or Sym(cx, fn)
                    ls = leaves_of(sym.expr(st[2][1]))
                    if any("width(" in x or "char_count" in x or "count(" in x for x in ls):
                        n_width += 1
                    if any("len_utf8" in x or "char_bytes" in x for x in ls):
                        n_bytes += 1
    r.analysed = {"lexer_column_updates_from_width_or_char_count": n_width, "lexer_column_updates_from_byte_counts": n_bytes}
    require(n_width >= 3, "R-COLUMN-BYTES: the lexer's column updates from width()/char counts were not found "
                          "(column semantics changed? re-read the rule)")
    n = 0
    for fn in F.fns.values():
        if fn.derived or not fn.crate.uname.startswith("koto") or fn.crate.uname == "koto_lexer":
            continue
        sym = None
        du = cx.du(fn)
        for c in fn.calls():
            last = (c.pretty or c.short or "").rsplit("::", 1)[-1]
            if last not in ("index", "index_mut", "get", "get_mut", "get_unchecked", "split_at", "is_char_boundary") or \
                    len(c.args) < 2:
                continue
            t0 = fn.crate.tstr(c.arg_ty(0))
            if not ("str" in t0.split("<")[0] or "String" in t0 or t0.endswith("str")):
                continue
            n += 1
            r.instances += 1
            sym = sym or Sym(cx, fn)
            ops = [c.args[1]]
            d = du.single_def(op_base(c.args[1])) if op_base(c.args[1]) is not None else None
            if d is not None and d[2] == "assign" and d[3][0] == "agg":
                ops = list(d[3][2])
            ls = set()
            for o in ops:
                leaves_of(sym.expr(o), ls)
            tainted = sorted(x for x in ls if x.endswith(".column") or ".column." in x)
            if tainted:
                r.nontrivial += 1
            r.sample({"fn": fn.qual, "line": c.line, "bounds": [_short(sym.expr(o))[:60] for o in ops],
                      "uses_column_as_byte_offset": bool(tainted)}, limit=30)
            if tainted:
                r.add(Finding("R-COLUMN-BYTES", fn.qual, "str-index:" + ",".join(tainted),
                              f"the source text is sliced at a byte offset computed from {', '.join(tainted)}, which counts "
                              f"characters / display columns: after a multi-byte character on the same line the slice is "
                              f"shifted (formatted numbers lose digits) or cuts a character (panic: 'not a char boundary')",
                              fn.file, c.line))
    r.floor("str slicing sites outside the lexer", n, 6)
    return r


# ---------------------------------------------------------------------------------------------
# R-FMT-SPEC (C11): each field of a format spec is re-emitted on its own

def rule_fmt_spec(cx, tier):
    r = RuleResult("R-FMT-SPEC",
                   "the formatter re-emits a string format spec field by field: in every koto_format function that takes "
                   "`&StringFormatOptions`, the code that reads one field (fill_character, alignment, min_width, precision, "
                   "representation) is not control-dependent on the value of another field -- the parser accepts every "
                   "field on its own, so a field emitted only when another one is set is dropped from some programs")
    subjects = []
    for fn in cx.F.crate_fns("koto_format"):
        ps = [i for i in range(1, fn.argc + 1) if "StringFormatOptions" in (fn.local_tstr(i) or "")]
        if ps and fn.kind != "Closure":
            subjects.append((fn, ps[0]))
    r.floor("koto_format functions taking StringFormatOptions", len(subjects), 1)
    reads_total = 0
    for fn, p in subjects:
        cfg = cx.cfg(fn)
        calls = {c.bb: c for c in fn.calls()}

        def field_of(place):
            if place is None or place[0] != p:
                return None
            fs = place_fields(place)
            return fs[0] if fs else None
        # reads per field, and the initial taint
        reads = {}
        taint = {}
        for b in fn.blocks:
            if b.cleanup:
                continue
            for st in b.stmts:
                if st[0] != "a":
                    continue
                for pl in rv_places(st[2]):
                    f = field_of(pl)
                    if f is not None:
                        reads.setdefault(f, set()).add(b.idx)
                        taint.setdefault(f, set()).add(st[1][0])
            c = calls.get(b.idx)
            if c is not None:
                for a in c.args:
                    f = field_of(op_place(a))
                    if f is not None:
                        reads.setdefault(f, set()).add(b.idx)
                        taint.setdefault(f, set()).add(c.dest[0])

        def region(sb):
            out = set()
            for t in cfg.succ[sb]:
                if set(cfg.pred[t]) <= {sb}:
                    out |= {x for x in cfg.reach if x == t or cfg.dominates(t, x)}
            # a region that every outcome shares is not controlled by the test
            return out
        switches = [b.idx for b in fn.blocks if not b.cleanup and b.term[0] == "switch"]
        changed = True
        while changed:
            changed = False
            for f, ts in taint.items():
                n0 = len(ts)
                for b in fn.blocks:
                    if b.cleanup:
                        continue
                    for st in b.stmts:
                        if st[0] == "a" and any(pl[0] in ts for pl in rv_places(st[2])):
                            ts.add(st[1][0])
                    c = calls.get(b.idx)
                    if c is not None and any(op_place(a) is not None and op_place(a)[0] in ts for a in c.args):
                        ts.add(c.dest[0])
                for sb in switches:
                    if op_base(fn.blocks[sb].term[1]) in ts:
                        for x in region(sb):
                            for st in fn.blocks[x].stmts:
                                if st[0] == "a":
                                    ts.add(st[1][0])
                            c = calls.get(x)
                            if c is not None:
                                ts.add(c.dest[0])
                if len(ts) != n0:
                    changed = True
        # the result accumulator is written everywhere: it is not a carrier of a field's value for this purpose
        for f, bbs in sorted(reads.items()):
            for bb in sorted(bbs):
                reads_total += 1
                r.instances += 1
                r.nontrivial += 1
                culprit = None
                for sb in switches:
                    l = op_base(fn.blocks[sb].term[1])
                    if l is None or l in taint.get(f, ()):
                        continue
                    gs = [g for g, ts in taint.items() if g != f and l in ts]
                    if gs and bb in region(sb):
                        culprit = (sb, gs)
                        break
                r.sample({"fn": fn.qual.rsplit("::", 1)[-1], "field": f, "line": line_of(fn, bb),
                          "depends_on": culprit[1] if culprit else []})
                if culprit:
                    r.add(Finding("R-FMT-SPEC", fn.qual, f"{f}:depends-on:{','.join(culprit[1])}",
                                  f"`{f}` is only read (and re-emitted) on one outcome of a test of `{', '.join(culprit[1])}` "
                                  f"(line {line_of(fn, culprit[0])}): a spec that sets `{f}` without it loses `{f}` when "
                                  f"formatted", fn.file, line_of(fn, bb)))
    r.floor("format spec field reads", reads_total, 3)
    r.analysed = {"functions": [f.qual for f, _ in subjects], "field_reads": reads_total}
    return r


# ---------------------------------------------------------------------------------------------
# R-LINE-OFFSETS (C11, C12): byte positions are not summed up from the lengths of `lines()` items

def rule_line_offsets(cx, tier):
    r = RuleResult("R-LINE-OFFSETS",
                   "`str::lines()` strips `\\n` *and* `\\r\\n`, so the byte length of its items says nothing exact about "
                   "where the next line starts: no koto crate adds up `line.len()` of a `lines()` item (directly, in a "
                   "loop, or in a closure handed to an adaptor over `Lines`) -- positions come from the newline's own index")
    from .iters import _taint_from
    uses = 0
    examined = 0
    by_name = cx.F.fns
    for fn in cx.F.fns.values():
        if fn.derived or not fn.crate.uname.startswith("koto"):
            continue
        calls = fn.calls()
        sources = []   # (function, tainted locals)
        for c in calls:
            gas = " ".join((c.ga_str(i) or "") for i in range(len(c.ga or [])))
            recv_ty = fn.crate.tstr(c.arg_ty(0)) if c.args else ""
            over_lines = "str::Lines<" in gas or "str::Lines<" in (recv_ty or "")
            if c.short == "str::lines":
                uses += 1
            if not over_lines:
                continue
            last = (c.short or "").rsplit("::", 1)[-1]
            if last in ("next", "next_back", "nth", "last"):
                sources.append((fn, {c.dest[0]}))
            for name in c.cl or []:
                g = by_name.get(name)
                if g is not None:
                    # every `&str` (or tuple holding one) parameter of the closure is a line
                    ps = {i for i in range(2, g.argc + 1) if "str" in (g.local_tstr(i) or "")}
                    if ps:
                        sources.append((g, ps))
        for g, start in sources:
            examined += 1
            r.instances += 1
            t = set()
            for s in start:
                t |= _taint_from(g, s)
            lens = [c for c in g.calls() if c.short in ("str::len", "String::len") and c.args and
                    op_place(c.args[0]) is not None and op_place(c.args[0])[0] in t]
            if not lens:
                continue
            r.nontrivial += 1
            t2 = set()
            for c in lens:
                t2 |= _taint_from(g, c.dest[0])
            hit = None
            for b in g.blocks:
                if b.cleanup:
                    continue
                for st in b.stmts:
                    if st[0] == "a" and st[2][0] == "bin" and st[2][1] in ("Add", "AddWithOverflow", "AddUnchecked") and \
                            any(op_base(o) in t2 for o in (st[2][2], st[2][3])):
                        hit = hit or line_of(g, b.idx)
            if hit is not None:
                r.add(Finding("R-LINE-OFFSETS", g.qual, "sum-of-lines-len",
                              "the byte length of a `lines()` item is added up: for a line that ends in `\\r\\n` the sum is one "
                              "byte short per line, so every later position (line start, slice, excerpt) is shifted",
                              g.file, hit))
            r.sample({"fn": g.qual, "len_of_line_items": len(lens), "summed": hit is not None})
    r.floor("uses of str::lines() in the koto crates", uses, 3)
    r.analysed = {"lines_uses": uses, "line_item_scopes": examined}
    return r
