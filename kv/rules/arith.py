"""Number and panicking-arithmetic rules: R-NUM-WRAP, R-DIV-FLOAT, R-ARITH, R-REM-ZERO, R-ACCUM (C01, C06)."""
from ..engine import Broken, Finding, RuleResult, require
from ..facts import loc_line
from ..mir import line_of, op_base, op_const, op_int, op_local, op_place, place_fields

KNUMBER = "koto_runtime::types::number::KNumber"
CHECKED = ("Overflow:Add", "Overflow:Sub", "Overflow:Mul", "Overflow:Div", "Overflow:Rem", "Overflow:Shl",
           "Overflow:Shr", "OverflowNeg", "DivisionByZero", "RemainderByZero")


def _opty(fn, o):
    if o[0] == "k":
        return fn.crate.tstr(o[1]["t"])
    p = o[1]
    return fn.crate.tstr(p[2]) if len(p) > 2 else fn.crate.tstr(fn.local_ty(p[0]))


def _asserts(fn):
    for b in fn.blocks:
        if b.cleanup:
            continue
        t = b.term
        if t[0] == "assert" and t[1] in CHECKED:
            yield b.idx, t


# ---------------------------------------------------------------------------------------------
# R-NUM-WRAP / R-DIV-FLOAT

WRAP_OF = {"Add": "wrapping_add", "Sub": "wrapping_sub", "Mul": "wrapping_mul", "Rem": "wrapping_rem",
           "Neg": "wrapping_neg"}


_INT_WIDTH = {"i8": 8, "u8": 8, "i16": 16, "u16": 16, "i32": 32, "u32": 32, "i64": 64, "u64": 64, "isize": 64,
              "usize": 64, "i128": 128, "u128": 128}


def _delegates_to_sibling(cx, fn):
    """an operator impl for KNumber / &KNumber that hands the work to another impl of the same operator for KNumber
    (`impl Add for &KNumber { fn add(self, o) { *self + *o } }`)"""
    for c in fn.calls():
        t = cx.F.fns.get(c.resolved)
        if t is not None and t is not fn and t.impl_trait == fn.impl_trait and t.method == fn.method and \
                t.impl_self in ("KNumber", "&KNumber"):
            return t
    return None


def rule_num_wrap(cx, tier):
    r = RuleResult("R-NUM-WRAP", "integer arithmetic of the number tower wraps by construction: the operator impls of "
                                 "KNumber (+ - * % unary-, pow) contain no overflow-checked integer arithmetic, use "
                                 "the wrapping_* operation that matches the operator, and narrow no operand with `as`")
    insts = []
    for fn in cx.F.fns.values():
        if fn.crate.uname != "koto_runtime" or fn.kind == "Closure":
            continue
        if fn.impl_trait in WRAP_OF and fn.impl_self in ("KNumber", "&KNumber") and fn.method in ("add", "sub", "mul", "rem", "neg"):
            insts.append((fn, fn.impl_trait))
        elif fn.qual == "koto_runtime::KNumber::pow":
            insts.append((fn, "Pow"))
    r.analysed = {"operator_impls": len(insts)}
    r.floor("KNumber operator implementations", len(insts), 8)
    for fn, tr in insts:
        r.instances += 1
        r.nontrivial += 1
        bad = [(bb, t) for bb, t in _asserts(fn) if t[1] in ("Overflow:Add", "Overflow:Sub", "Overflow:Mul", "OverflowNeg", "Overflow:Shl")]
        verdict = "ok"
        if bad:
            bb, t = bad[0]
            verdict = "violation"
            r.add(Finding("R-NUM-WRAP", fn.qual, t[1], f"the {tr} implementation contains overflow-checked integer "
                          f"arithmetic ({t[1]}): integer results no longer wrap and overflow panics in debug builds",
                          fn.file, loc_line(t[6])))
        # no operand is squeezed into a narrower integer type on the way (the exponent of `^` reaches wrapping_pow's u32
        # through a checked conversion, not `as u32`)
        for b in fn.blocks:
            if b.cleanup:
                continue
            for st in b.stmts:
                if st[0] == "a" and st[2][0] == "cast" and st[2][1] == "IntToInt" and st[2][2][0] != "k":
                    src = fn.crate.tstr(fn.local_ty(st[2][2][1][0])) if st[2][2][1] else None
                    dst = fn.local_tstr(st[1][0])
                    if _INT_WIDTH.get(dst, 0) < _INT_WIDTH.get(src, 0):
                        # a cast under a dominating range test of the same value is a checked conversion spelled by hand
                        from .narrow import FnBounds
                        fb = FnBounds(cx, fn)
                        try:
                            m = fb.at(b.idx).mag(fb.sym.expr(st[2][2]))
                        except Exception:
                            m = None
                        w = _INT_WIDTH[dst] - (1 if dst.startswith("i") else 0)
                        if m is not None and m <= (1 << w) - 1:
                            continue
                        verdict = "violation"
                        r.add(Finding("R-NUM-WRAP", fn.qual, f"narrowed:{src}->{dst}",
                                      f"the {tr} implementation narrows an operand with `as {dst}` (from {src}): values "
                                      f"beyond {dst}'s range are silently reduced before the operation (`2 ^ 4294967296` "
                                      f"evaluated as `2 ^ 0`)", fn.file, line_of(fn, b.idx)))
        want = WRAP_OF.get(tr, "wrapping_pow")
        has = any((c.pretty or "").endswith("::" + want) for c in fn.calls())
        if not has and tr != "Pow" and _delegates_to_sibling(cx, fn) is not None:
            has = True           # the sibling impl it delegates to is an instance of its own
        if not has:
            verdict = "violation"
            others = sorted({(c.pretty or "").rsplit("::", 1)[-1] for c in fn.calls() if "wrapping_" in (c.pretty or "")})
            r.add(Finding("R-NUM-WRAP", fn.qual, "op:" + want, f"the integer arm of {tr} does not use i64::{want}"
                          + (f" (uses {', '.join(others)})" if others else ""), fn.file, fn.line))
        r.sample({"fn": fn.qual, "trait": tr, "checked_arith": len(bad), "uses": want, "verdict": verdict}, limit=12)
    return r


def rule_div_float(cx, tier):
    r = RuleResult("R-DIV-FLOAT", "`/` always yields a float: every KNumber built by the Div impls is the F64 variant")
    insts = [fn for fn in cx.F.fns.values() if fn.crate.uname == "koto_runtime" and fn.impl_trait == "Div"
             and fn.impl_self in ("KNumber", "&KNumber") and fn.method == "div"]
    r.floor("Div implementations for KNumber", len(insts), 2)
    for fn in insts:
        r.instances += 1
        r.nontrivial += 1
        variants = []
        for b in fn.blocks:
            if b.cleanup:
                continue
            for st in b.stmts:
                if st[0] == "a" and st[2][0] == "agg" and st[2][1][0] == "adt" and fn.crate.defs[st[2][1][1]] == KNUMBER:
                    variants.append(st[2][1][2])
        bad = [v for v in variants if v != "F64"]
        if not variants and _delegates_to_sibling(cx, fn) is not None:
            r.sample({"fn": fn.qual, "variants_built": "delegates to " + _delegates_to_sibling(cx, fn).qual})
            continue
        if bad or not variants:
            r.add(Finding("R-DIV-FLOAT", fn.qual, "variant", f"Div::div builds KNumber::{bad[0] if bad else '?'}: "
                          f"`/` no longer always yields a float", fn.file, fn.line))
        r.sample({"fn": fn.qual, "variants_built": variants})
    return r


# ---------------------------------------------------------------------------------------------
# R-ARITH: script integers (i64) do not reach panicking arithmetic unguarded

CMP = ("Lt", "Le", "Gt", "Ge", "Eq", "Ne")


def _roots(cx, fn, op, depth=0):
    """set of 'origin keys' of an operand: follows copies / casts / field reads back to locals that are defined by calls,
    parameters or multiple definitions; used to relate a comparison to an arithmetic operand"""
    du = cx.du(fn)
    out = set()
    p = op_place(op)
    if p is None:
        return out
    work = [(p[0], tuple(place_fields(p)))]
    seen = set()
    while work:
        l, fields = work.pop()
        if (l, fields) in seen or len(seen) > 40:
            continue
        seen.add((l, fields))
        out.add((l, fields))
        d = du.single_def(l)
        if d is None or d[2] != "assign":
            if d is not None and d[2] == "call":
                c = d[3]
                # conversions / derefs keep the identity of their argument
                if c.is_("From::from", "Into::into", "Clone::clone", "Deref::deref") or (c.pretty or "").endswith("::from"):
                    if c.args:
                        pp = op_place(c.args[0])
                        if pp is not None:
                            work.append((pp[0], tuple(place_fields(pp))))
            continue
        rv = d[3]
        if rv[0] in ("use", "cast"):
            o = rv[1] if rv[0] == "use" else rv[2]
            pp = op_place(o)
            if pp is not None:
                work.append((pp[0], tuple(place_fields(pp)) + fields))
        elif rv[0] in ("ref",):
            pp = rv[2]
            work.append((pp[0], tuple(place_fields(pp)) + fields))
    return out


def _comparisons(cx, fn):
    """[(bb, set of origin keys of both operands, constant operand value or None)] for every comparison in fn"""
    out = []
    for b in fn.blocks:
        if b.cleanup:
            continue
        for st in b.stmts:
            if st[0] == "a" and st[2][0] == "bin" and st[2][1] in CMP:
                a, c = st[2][2], st[2][3]
                keys = _roots(cx, fn, a) | _roots(cx, fn, c)
                const = op_int(a) if op_int(a) is not None else op_int(c)
                out.append((b.idx, keys, const, st[2][1], st[1][0], _roots(cx, fn, a)))
    for c in fn.calls():
        if c.is_("PartialOrd::lt", "PartialOrd::le", "PartialOrd::gt", "PartialOrd::ge", "PartialEq::eq", "PartialEq::ne",
                 "PartialOrd::partial_cmp", "Ord::cmp", "Ord::min", "Ord::max", "Ord::clamp") and len(c.args) >= 2:
            keys = _roots(cx, fn, c.args[0]) | _roots(cx, fn, c.args[1])
            out.append((c.bb, keys, None, c.short.rsplit("::", 1)[-1], c.dest[0] if not c.dest[1] else None,
                        _roots(cx, fn, c.args[0])))
        elif (c.pretty or "").rsplit("::", 1)[-1] in ("min", "max", "clamp", "checked_add", "checked_sub", "abs",
                                                        "rem_euclid", "signum", "is_positive", "is_negative") and c.args:
            keys = set()
            for a in c.args:
                keys |= _roots(cx, fn, a)
            out.append((c.bb, keys, None, (c.pretty or "").rsplit("::", 1)[-1], None, set()))
    return out


def rule_arith(cx, tier):
    r = RuleResult("R-ARITH", "script-supplied integers (i64) do not reach panicking arithmetic unguarded: every "
                              "overflow-/zero-checked i64 operation in the runtime is dominated by a comparison of the "
                              "same value of the kind the operation needs (shift: upper bound; div/rem: zero test; "
                              "add/sub/mul: some bound)")
    n_fn = 0
    n_all = 0
    for fn in cx.F.fns.values():
        if fn.crate.uname != "koto_runtime" or fn.derived:
            continue
        if fn.impl_self in ("KNumber", "&KNumber"):
            continue  # R-NUM-WRAP's subject
        sites = []
        for bb, t in _asserts(fn):
            n_all += 1
            tys = [_opty(fn, o) for o in t[5]]
            if "i64" in tys or t[1] in ("Overflow:Shl", "Overflow:Shr"):
                sites.append((bb, t, tys))
        if not sites:
            continue
        n_fn += 1
        cfg = cx.cfg(fn)
        comps = _comparisons(cx, fn)
        label = cx.label(fn)
        for bb, t, tys in sites:
            r.instances += 1
            kind = t[1]
            ops = t[5]
            nonconst = [o for o in ops if o[0] != "k"]
            if not nonconst:
                continue
            r.nontrivial += 1
            # which operand needs the guard
            if kind in ("Overflow:Shl", "Overflow:Shr"):
                need = [ops[1]] if len(ops) > 1 else nonconst
                want = "upper"
            elif kind in ("DivisionByZero", "RemainderByZero"):
                # the assert's operand is the dividend; the divisor is in the condition `Eq(divisor, 0)`
                need = [ops[0]]
                cl = op_base(t[2])
                dd = cx.du(fn).single_def(cl) if cl is not None else None
                if dd is not None and dd[2] == "assign" and dd[3][0] == "bin" and dd[3][1] == "Eq":
                    a, b2 = dd[3][2], dd[3][3]
                    need = [a] if op_int(b2) == 0 else ([b2] if op_int(a) == 0 else [a, b2])
                    need = [o for o in need if o[0] != "k"] or [ops[0]]
                want = "zero"
            else:
                need = nonconst
                want = "any"
            keys = set()
            for o in need:
                keys |= _roots(cx, fn, o)
            guard = None
            cond_local = op_base(t[2])
            # an operand that is the checked result of a fallible validation call (`validate_index(..)?`) is bounded
            du = cx.du(fn)
            for o in need:
                v = _validated_int(cx, fn, du, o)
                if v is not None:
                    guard = (v.bb, "validated-by:" + v.short.rsplit("::", 1)[-1], None)
            # ... which says nothing about the *other* operand of an addition / subtraction / multiplication: a validated
            # index added to an unguarded script integer (the start of a range without an end) still overflows
            if want == "any" and len(need) == 2 and guard is not None:
                for o in need:
                    if _validated_int(cx, fn, du, o) is not None or _is_derived(cx, fn, du, o):
                        continue
                    k2 = _roots(cx, fn, o)
                    if any((ckeys & k2) and (cb == bb or cfg.dominates(cb, bb)) and not (cdest == cond_local and cb == bb)
                           for cb, ckeys, const, opname, cdest, lhs_keys in comps):
                        continue
                    guard = None
            self_fields = all(op_place(o) is not None and any(k[0] == 1 and k[1] for k in _roots(cx, fn, o)) for o in need)
            for cb, ckeys, const, opname, cdest, lhs_keys in comps:
                if guard is not None:
                    break
                if cdest is not None and cdest == cond_local and cb == bb:
                    continue   # the overflow check itself
                if not (ckeys & keys):
                    continue
                if not (cb == bb or cfg.dominates(cb, bb)):
                    continue
                if want == "upper":
                    bk = _bound_kind(cx, fn, cfg, cb, cdest, opname, bool(lhs_keys & keys), bb)
                    if bk == "lower":
                        continue   # `x >= c` on the taken edge bounds the value from below only
                if want == "zero" and not ((const == 0 and opname in ("Eq", "Ne", "Gt", "Lt", "Le", "Ge")) or opname not in CMP):
                    continue
                guard = (cb, opname, const)
                break
            line = loc_line(t[6])
            # operands that are themselves results of arithmetic are not directly script-supplied: their range
            # follows from the earlier (checked or guarded) operations -> undecided, never raised
            derived = [o for o in need if _is_derived(cx, fn, du, o)]
            if guard is None and derived:
                r.undecided.append(f"{label}:{line} {kind} on a value computed by earlier arithmetic")
                continue
            if guard is None and self_fields and fn.argc >= 1:
                r.undecided.append(f"{label}:{line} {kind} on fields of self (bounded by the constructor's invariant?)")
                continue
            if guard is None:
                field_based = any(place_fields(op_place(o)) for o in need if op_place(o) is not None and op_place(o)[0] == 1)
                what = {"upper": "no upper-bound comparison of the shift amount", "zero": "no zero test of the divisor",
                        "any": "no comparison of the operand"}[want]
                opname = kind.replace("Overflow:", "").replace("ByZero", " by zero")
                r.add(Finding("R-ARITH", label, f"{kind}@{_site_name(fn, t)}", f"checked i64 `{opname}` with {what} "
                              f"dominating it: a script-supplied integer can make it panic", fn.file, line,
                              [f"{fn.file}:{line} {kind} operands {[_opty(fn, o) for o in ops]}"]))
            r.sample({"fn": label, "line": line, "op": kind, "guard": f"{guard[1]} {guard[2]}" if guard else "none"}, limit=25)
    r.analysed = {"functions_with_i64_checked_arithmetic": n_fn, "checked_arithmetic_sites_in_runtime": n_all}
    r.floor("checked arithmetic sites in koto_runtime", n_all, 75)
    return r


def _bound_kind(cx, fn, cfg, cmp_bb, cmp_dest, opname, key_is_lhs, site_bb):
    """'upper' / 'lower' / 'unknown': what the comparison establishes about the value on the edge that leads to the
    arithmetic site"""
    op = opname.lower()
    if op not in ("lt", "le", "gt", "ge") or cmp_dest is None:
        return "unknown"
    # find the switch on the comparison result (through Not)
    du = cx.du(fn)
    neg = False
    target = cmp_dest
    sw = None
    for b in fn.blocks:
        if b.cleanup or b.term[0] != "switch":
            continue
        l = op_base(b.term[1])
        n2 = False
        for _ in range(4):
            if l == target:
                sw = b
                neg = n2
                break
            d = du.single_def(l) if l is not None else None
            if d is None or d[2] != "assign":
                break
            rv = d[3]
            if rv[0] == "un" and rv[1] == "Not":
                n2 = not n2
                l = op_base(rv[2])
            elif rv[0] == "use":
                l = op_base(rv[1])
            else:
                break
        if sw is not None:
            break
    if sw is None:
        return "unknown"
    t = sw.term
    true_edges = set()
    false_edges = set()
    for v, tb in t[2]:
        (false_edges if (v == 0) != neg else true_edges).add(tb)
    listed = {v for v, _ in t[2]}
    if listed == {0}:
        (true_edges if not neg else false_edges).add(t[3])
    elif listed == {1}:
        (false_edges if not neg else true_edges).add(t[3])
    on_true = any(e == site_bb or cfg.dominates(e, site_bb) for e in true_edges)
    on_false = any(e == site_bb or cfg.dominates(e, site_bb) for e in false_edges)
    if on_true == on_false:
        return "unknown"
    upper_when_true = op in ("lt", "le")
    if not key_is_lhs:
        upper_when_true = not upper_when_true
    if on_true:
        return "upper" if upper_when_true else "lower"
    return "lower" if upper_when_true else "upper"


def _is_derived(cx, fn, du, op):
    """is the operand (through copies) the result of a binary arithmetic operation or of an integer-arithmetic call"""
    l = op_base(op)
    p = op_place(op)
    if p is not None and p[1]:
        # a tuple field of an overflow-checked op result: (_x.0)
        d = du.single_def(p[0])
        if d is not None and d[2] == "assign" and d[3][0] == "bin":
            return True
    for _ in range(8):
        if l is None:
            return False
        ds = du.full_defs(l)
        if len(ds) != 1:
            # several definitions: derived if any of them is arithmetic
            return any(d[2] == "assign" and d[3][0] in ("bin", "un") for d in ds)
        d = ds[0]
        if d[2] == "call":
            nm = (d[3].pretty or "").rsplit("::", 1)[-1]
            return nm in ("abs", "wrapping_add", "wrapping_sub", "wrapping_mul", "saturating_add", "saturating_sub",
                          "pow", "wrapping_neg", "rem_euclid", "div_euclid", "min", "max")
        rv = d[3]
        if rv[0] in ("bin", "un"):
            return True
        if rv[0] == "use":
            pl = op_place(rv[1])
            if pl is not None and pl[1]:
                dd = du.single_def(pl[0])
                return dd is not None and dd[2] == "assign" and dd[3][0] == "bin"
            l = op_base(rv[1])
            continue
        if rv[0] == "cast":
            l = op_base(rv[2])
            continue
        return False
    return False


def _validated_int(cx, fn, du, op):
    """the fallible workspace call (`validate_index(..)?`) whose integer result this operand is (through copies and
    integer casts only), or None"""
    l = op_base(op)
    for _ in range(10):
        if l is None:
            return None
        d = du.single_def(l)
        if d is None:
            return None
        if d[2] == "call":
            c = d[3]
            if c.is_("Try::branch") and c.args:
                l = op_base(c.args[0])
                continue
            tf = cx.F.fns.get(c.resolved)
            if tf is not None:
                rt = tf.crate.tstr(tf.local_ty(0))
                import re
                if re.search(r"Result<(usize|u8|u16|u32|u64|i8|i16|i32|i64|isize)\b", rt):
                    return c
            return None
        rv = d[3]
        if rv[0] == "use":
            l = op_base(rv[1])
        elif rv[0] == "cast" and rv[1] == "IntToInt":
            l = op_base(rv[2])
        else:
            return None
    return None


def _site_name(fn, t):
    """a line-independent name for the site: the user variable names of the operands when known"""
    names = []
    for o in t[5]:
        if o[0] == "k":
            names.append(str(o[1].get("i", "c")))
        else:
            p = o[1]
            l = p[0]
            n = fn.local_name(l)
            hops = 0
            while n is None and hops < 5:
                # follow copies back to a named local
                ds = [st for b in fn.blocks if not b.cleanup for st in b.stmts
                      if st[0] == "a" and st[1][0] == l and not st[1][1]]
                if len(ds) != 1 or ds[0][2][0] not in ("use", "cast"):
                    break
                src = op_place(ds[0][2][1] if ds[0][2][0] == "use" else ds[0][2][2])
                if src is None:
                    break
                l = src[0]
                n = fn.local_name(l)
                if n is not None and place_fields(src):
                    n = n + "." + ".".join(place_fields(src))
                hops += 1
            fs = place_fields(p)
            names.append((n or "t") + ("." + ".".join(fs) if fs else ""))
    return ",".join(names)


# ---------------------------------------------------------------------------------------------
# R-REM-ZERO: callers of the panicking integer remainder test the divisor for zero

def rule_rem_zero(cx, tier):
    r = RuleResult("R-REM-ZERO", "every use of KNumber's `%` (which panics on an integer zero divisor) sits in a "
                                 "function that tests the divisor for zero — `x % y` and `x %= y` agree on the guard")
    sites = []
    for fn in cx.F.fns.values():
        if fn.crate.uname != "koto_runtime":
            continue
        for c in fn.calls():
            t = cx.F.fns.get(c.resolved)
            if t is not None and t.impl_trait == "Rem" and t.impl_self in ("KNumber", "&KNumber"):
                if fn.impl_trait == "Rem" and fn.impl_self in ("KNumber", "&KNumber"):
                    continue          # the operator delegating to its by-value / by-reference sibling is not a use of it
                sites.append((fn, c))
    r.analysed = {"rem_call_sites": len(sites)}
    r.floor("call sites of KNumber % KNumber", len(sites), 1)
    for fn, c in sites:
        r.instances += 1
        r.nontrivial += 1
        root = cx.F.fns.get(fn.root) if fn.kind == "Closure" else fn
        cands = [fn] + ([root] if root is not None and root is not fn else [])
        ok = False
        for f2 in cands:
            for b in f2.blocks:
                if b.cleanup:
                    continue
                for st in b.stmts:
                    if st[0] == "a" and st[2][0] == "bin" and st[2][1] in ("Eq", "Ne"):
                        a, d = st[2][2], st[2][3]
                        if (op_int(a) == 0 and _opty(f2, d) == "i64") or (op_int(d) == 0 and _opty(f2, a) == "i64"):
                            ok = True
                t = b.term
                if t[0] == "switch" and _opty(f2, t[1]) == "i64" and any(v == 0 for v, _ in t[2]):
                    ok = True
        label = cx.label(root if root is not None else fn)
        if not ok:
            r.add(Finding("R-REM-ZERO", label, "zero-divisor", "integer remainder is computed without testing the "
                          "divisor for zero: i64::wrapping_rem panics on a zero divisor (its sibling run_remainder "
                          "returns NaN)", fn.file, c.line))
        r.sample({"fn": label, "line": c.line, "zero_test": ok})
    return r


# ---------------------------------------------------------------------------------------------
# R-ACCUM: digit accumulators in input-driven loops are bounded inside the loop

def rule_accum(cx, tier):
    r = RuleResult("R-ACCUM", "an accumulator that is multiplied by a constant radix inside a loop over input characters "
                              "(x = x * 10 + d) is compared against a bound inside the same loop, so arbitrarily long "
                              "digit sequences cannot overflow it")
    n_mul = 0
    for fn in cx.F.fns.values():
        if fn.crate.uname not in ("koto_lexer", "koto_parser", "koto_bytecode", "koto_format", "koto_runtime") or fn.derived:
            continue
        muls = [(bb, t) for bb, t in _asserts(fn) if t[1] == "Overflow:Mul"]
        if not muls:
            continue
        cfg = cx.cfg(fn)
        loops = [cfg.natural_loop(t, h) for (t, h) in cfg.back_edges()]
        for bb, t in muls:
            n_mul += 1
            r.instances += 1
            ops = t[5]
            consts = [op_int(o) for o in ops]
            if not any(c is not None and c > 1 for c in consts):
                continue
            inloops = [l for l in loops if bb in l]
            if not inloops:
                continue
            loop = min(inloops, key=len)
            acc = [o for o in ops if o[0] != "k"]
            if not acc:
                continue
            accl = op_base(acc[0])
            # loop-carried: the accumulator local is assigned inside the loop
            du = cx.du(fn)
            # loop-carried: inside the loop the accumulator is re-assigned from an operation on its own value
            carried = False
            for d in du.defs.get(accl, []):
                if d[0] not in loop or d[2] != "assign" or d[3][0] != "use":
                    continue
                src = op_place(d[3][1])
                if src is None:
                    continue
                dd = du.single_def(src[0])
                if dd is not None and dd[2] == "assign" and dd[3][0] == "bin" and \
                        any(op_base(o) == accl for o in (dd[3][2], dd[3][3])):
                    carried = True
            if not carried:
                continue
            r.nontrivial += 1
            keys = _roots(cx, fn, acc[0]) | {(accl, ())}
            guarded = False
            for cb, ckeys, const, opname, _cd, _lk in _comparisons(cx, fn):
                if cb in loop and (ckeys & keys) and opname in ("Lt", "Le", "Gt", "Ge", "lt", "le", "gt", "ge", "min", "clamp"):
                    guarded = True
            line = loc_line(t[6])
            if not guarded:
                r.add(Finding("R-ACCUM", cx.label(fn), f"accumulator:{fn.local_name(accl) or accl}",
                              f"`{fn.local_name(accl) or 'accumulator'}` is multiplied by {max(c for c in consts if c)} on "
                              f"every iteration of an input-driven loop with no bound check inside the loop: a long "
                              f"enough digit sequence overflows it (a panic in debug builds)", fn.file, line))
            r.sample({"fn": cx.label(fn), "line": line, "accumulator": fn.local_name(accl), "bounded_in_loop": guarded})
    r.analysed = {"checked_multiplications": n_mul}
    r.floor("checked multiplications scanned", n_mul, 7)
    return r


# ---------------------------------------------------------------------------------------------
# R-FLOAT-NOTATION

def rule_float_notation(cx, tier):
    """R-FLOAT-NOTATION: floats reach text through Display, never through a notation-switching formatter."""
    import re
    r = RuleResult("R-FLOAT-NOTATION",
                   "no f64 / f32 is handed to `{:?}` (anywhere outside Debug impls) or to `{:e}` / `{:E}` (in a Display impl) in the "
                   "runtime, core library, CLI or serde crates: "
                   "f64's Debug switches to scientific notation below 1e-4 and from 1e16 up, Display (with or without a "
                   "precision) never does, and the language prints numbers in positional notation")
    CRATES = ("koto_runtime", "koto", "koto_serde", "koto_json", "koto_yaml", "koto_toml", "koto_cli", "koto_parser")
    seen = 0
    floats = 0
    for fn in cx.F.fns.values():
        if fn.crate.uname not in CRATES or " as Debug>" in fn.qual:
            continue
        for c in fn.calls():
            s = c.short or ""
            m = re.match(r"Argument::(new_debug|new_lower_exp|new_upper_exp|new_display)$", s)
            if not m or not c.ga:
                continue
            kind = m.group(1)
            ty = (c.ga_str(0) or "").replace("&", "").replace("mut ", "").strip()
            if kind == "new_display":
                if ty in ("f64", "f32"):
                    floats += 1
                continue
            seen += 1
            # `{:e}` / `{:E}` are what a format spec's ExpLower / ExpUpper representation asks for; they are wrong only
            # where plain rendering is meant: in a Display impl
            if kind != "new_debug" and " as Display>" not in fn.qual:
                continue
            if ty in ("f64", "f32"):
                r.instances += 1
                r.nontrivial += 1
                r.add(Finding("R-FLOAT-NOTATION", fn.qual, f"{kind}:{ty}",
                              f"a {ty} is formatted with {'{:?}' if kind == 'new_debug' else '{:e}'}: values below 1e-4 or "
                              f"from 1e16 up come out in scientific notation (`1e16`, `1e-5`) instead of the positional "
                              f"digits the language prints", fn.file, c.line))
    r.instances += floats
    r.floor("Debug / exponent format arguments seen (any type; shows the detector sees fmt arguments)", seen, 3)
    r.floor("floats formatted through Display", floats, 2)
    r.analysed = {"debug_or_exp_arguments": seen, "float_display_arguments": floats}
    return r
