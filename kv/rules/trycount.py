"""R-TRY-COUNT (C04, C05): the compiler's count of active try blocks mirrors the catch points the emitted code has registered.

`break` / `continue` emit one TryEnd per try block entered inside the loop (`Frame::active_try_blocks` minus the count
saved with the loop, R-TRY-EXIT).  That count is kept by hand (`push_try_block` / `pop_try_block`) next to the
emission of TryStart / TryEnd.  Nested code is compiled by recursive calls, so what matters is the state *at each
recursive compile call*: the block is counted there iff the emitted code has a catch point registered there --
  try body          : TryStart emitted, no TryEnd yet        -> registered, counted
  catch / finally   : TryEnd emitted at the catch entry      -> not registered, not counted
If the two disagree, a `break` in that nested code emits a TryEnd too many (it pops the catch point of an *enclosing*
try, whose handler is then skipped) or one too few (a stale catch point catches a later, unrelated error).
"""
from ..engine import Finding, RuleResult, require
from ..mir import line_of, op_base
from ..typestate import Explorer
from .compiler import COMP, TRY_CLOSE, TRY_OPEN

FRAME = "koto_bytecode::frame::Frame::"


def rule_try_count(cx, tier):
    r = RuleResult("R-TRY-COUNT",
                   "at every recursive compile call of a Compiler method that opens a try block, the frame's "
                   "active-try-block count includes the block exactly when the emitted code has its catch point "
                   "registered there (after TryStart / the catch entry, before TryEnd): `break` and `continue` emit "
                   "their TryEnd instructions from that count")
    from .enc import Writer
    w = Writer(cx)
    F = cx.F
    cn = cx.need_fn(COMP + "compile_node")
    recursive = cx.cg.reach_set({cn.name})
    emit = (COMP + "push_op", COMP + "push_op_without_span")
    subjects = []
    for fn in w.fns:
        cnt = {}
        for c in fn.calls():
            s = c.short
            if s.endswith("Frame::push_try_block"):
                cnt[c.bb] = +1
            elif s.endswith("Frame::pop_try_block"):
                cnt[c.bb] = -1
        if cnt:
            subjects.append((fn, cnt))
    require(subjects, "R-TRY-COUNT: no Compiler method calls Frame::push_try_block / pop_try_block")
    n_rec = 0
    for fn, cnt in subjects:
        du = cx.du(fn)
        ev = {}
        for c in fn.calls():
            if c.short in emit and len(c.args) > 1:
                ops = w.op_variants(fn, c.args[1])
                if ops and ops <= TRY_OPEN:
                    ev[c.bb] = "start"
                elif ops and ops <= TRY_CLOSE:
                    ev[c.bb] = "end"
        # the catch entry: the patch of the placeholder pushed right after TryStart
        for bb, e in list(ev.items()):
            if e != "start":
                continue
            b = fn.call_at(bb).target
            ph = None
            for _ in range(6):
                c2 = fn.call_at(b) if b is not None else None
                if c2 is None:
                    break
                if c2.short == COMP + "push_offset_placeholder":
                    ph = c2
                    break
                b = c2.target
            if ph is None:
                continue
            for c2 in fn.calls():
                if c2.short == COMP + "update_offset_placeholder" and len(c2.args) > 1:
                    l = op_base(c2.args[1])
                    rr = du.root(l, through_calls=("Try::branch",)) if l is not None else None
                    if rr is not None and rr[0] == "call" and rr[1].bb == ph.bb:
                        ev[c2.bb] = "catch-entry"
        if not any(e == "start" for e in ev.values()):
            # counter and emission live in different methods: the per-method walk has no subject here
            r.undecided.append(f"{fn.qual} counts try blocks but emits no TryStart itself (counter and emission were "
                               f"separated): not decided")
            continue
        rec = {}
        for c in fn.calls():
            if c.bb in ev or c.bb in cnt:
                continue
            tg = [t for t in cx.cg.targets(c) if t in F.fns]
            if c.short.startswith(COMP) and c.short not in emit and any(t in recursive for t in tg):
                rec[c.bb] = c
        n_rec += len(rec)
        bad = {}

        def transfer(bb, st, ev=ev, cnt=cnt, rec=rec, bad=bad):
            registered, counted = st
            if bb in rec and (counted == 1) != registered and counted in (0, 1):
                c = rec[bb]
                key = (c.short, registered, counted)
                if key not in bad:
                    bad[key] = (bb, c)
            e = ev.get(bb)
            if e == "start" or e == "catch-entry":
                registered = True
            elif e == "end":
                registered = False
            d = cnt.get(bb)
            if d is not None:
                counted = max(-2, min(3, counted + d))
            return (registered, counted)

        ex = Explorer(cx, fn)
        n = ex.run((False, 0), transfer, lambda bb, st, pathf: None)
        r.instances += len(rec)
        r.nontrivial += len(rec)
        if ex.truncated:
            r.undecided.append(f"{fn.qual}: state space truncated")
        for (short, registered, counted), (bb, c) in bad.items():
            what = ("is still counted as an active try block although the emitted code has already removed its catch point "
                    "(TryEnd): a `break` / `continue` compiled here emits one TryEnd too many, which pops the catch point of "
                    "an enclosing try -- its handler is skipped by a later error") if counted == 1 else \
                   ("is not counted as an active try block although its catch point is registered in the emitted code: a "
                    "`break` / `continue` compiled here leaves a stale catch point behind")
            r.add(Finding("R-TRY-COUNT", fn.qual, f"{short[len(COMP):] if short.startswith(COMP) else short}:"
                          f"{'counted-not-registered' if counted == 1 else 'registered-not-counted'}",
                          f"the code compiled by {short.rsplit('::', 1)[-1]} at line {c.line} {what}", fn.file, c.line))
        r.sample({"fn": fn.qual, "events": {line_of(fn, b): e for b, e in sorted(ev.items())},
                  "counter_sites": {line_of(fn, b): d for b, d in sorted(cnt.items())},
                  "recursive_compile_calls": len(rec), "states": n, "mismatches": len(bad)})
    r.analysed = {"functions_counting_try_blocks": len(subjects), "recursive_compile_calls_checked": n_rec}
    if len(r.undecided) >= len(subjects) and not n_rec:
        r.notes.append("no method both counts try blocks and emits TryStart: nothing decided")
        return r
    r.floor("recursive compile calls in try-counting methods", n_rec, 3)
    return r


# ---------------------------------------------------------------------------------------------
# R-FINALLY-CATCH (C04): code compiled between the catch entry and the finally block runs under a catch point

def _try_events(cx, w, fn):
    """bb -> 'start' | 'end' | 'catch-entry' for the TryStart / TryEnd emissions of fn and the patch of the catch offset"""
    emit = (COMP + "push_op", COMP + "push_op_without_span")
    du = cx.du(fn)
    ev = {}
    for c in fn.calls():
        if c.short in emit and len(c.args) > 1:
            ops = w.op_variants(fn, c.args[1])
            if ops and ops <= TRY_OPEN:
                ev[c.bb] = "start"
            elif ops and ops <= TRY_CLOSE:
                ev[c.bb] = "end"
    for bb, e in list(ev.items()):
        if e != "start":
            continue
        b = fn.call_at(bb).target
        ph = None
        for _ in range(6):
            c2 = fn.call_at(b) if b is not None else None
            if c2 is None:
                break
            if c2.short == COMP + "push_offset_placeholder":
                ph = c2
                break
            b = c2.target
        if ph is None:
            continue
        for c2 in fn.calls():
            if c2.short == COMP + "update_offset_placeholder" and len(c2.args) > 1:
                l = op_base(c2.args[1])
                rr = du.root(l, through_calls=("Try::branch",)) if l is not None else None
                if rr is not None and rr[0] == "call" and rr[1].bb == ph.bb:
                    ev[c2.bb] = "catch-entry"
    return ev


def rule_finally_catch(cx, tier):
    r = RuleResult("R-FINALLY-CATCH",
                   "`finally` runs on every path only if every piece of code between the catch entry and the finally block "
                   "runs under a catch point: the VM leaves a frame on an error unless a catch point is registered, and the "
                   "finally block is ordinary code at the end of the try expression.  So at each recursive compile call of "
                   "compile_try_expression after the catch entry (catch argument checks, catch bodies) the emitted code "
                   "must have a catch point registered (a second TryStart whose handler runs the finally block and "
                   "rethrows), unless the call compiles the finally block itself")
    from .enc import Writer
    w = Writer(cx)
    F = cx.F
    fn = cx.need_fn(COMP + "compile_try_expression")
    cfg = cx.cfg(fn)
    names = {fn.local_name(l) for l in range(len(fn.raw.get("locals", []))) } if hasattr(fn, "raw") else set()
    emit = (COMP + "push_op", COMP + "push_op_without_span")
    # a VM-side mechanism (an op that registers a finally handler) would move the obligation out of the compiler
    for g in w.fns:
        for c in g.calls():
            if c.short in emit and len(c.args) > 1 and any("Finally" in o for o in (w.op_variants(g, c.args[1]) or ())):
                r.undecided.append("the instruction set has a Finally op: finally handling is no longer plain emitted control "
                                   "flow; the compiler clause is not decided")
                return r
    ev = _try_events(cx, w, fn)
    require(any(e == "catch-entry" for e in ev.values()), "R-FINALLY-CATCH: catch entry of compile_try_expression not found")
    cn = cx.need_fn(COMP + "compile_node")
    recursive = cx.cg.reach_set({cn.name})
    rec = {}
    for c in fn.calls():
        if c.bb in ev or fn.blocks[c.bb].cleanup or c.bb not in cfg.reach:
            continue
        tg = [t for t in cx.cg.targets(c) if t in F.fns]
        if c.short.startswith(COMP) and c.short not in emit and any(t in recursive for t in tg):
            rec[c.bb] = c
    # the compile call of the finally block itself is the last one: no other recursive compile call can follow it
    terminal = {bb for bb in rec if not any(o != bb and o in cfg.reachable_after(bb) for o in rec) and
                not (bb in cfg.reachable_after(bb))}
    r.floor("recursive compile calls in compile_try_expression", len(rec), 3)
    bad = {}

    # the obligation exists only for try expressions that have a finally block, and a repair will register the second
    # catch point under that condition: a call is reported only if *no* path reaches it with a catch point registered
    states = {}

    def transfer(bb, st):
        registered, after_catch = st
        if bb in rec and bb not in terminal and after_catch:
            states.setdefault(bb, set()).add(registered)
        e = ev.get(bb)
        if e == "start":
            registered = True
        elif e == "catch-entry":
            registered, after_catch = True, True
        elif e == "end":
            registered = False
        return (registered, after_catch)

    ex = Explorer(cx, fn)
    n = ex.run((False, False), transfer, lambda bb, st, pathf: None)
    for bb, sts in states.items():
        if sts == {False}:
            bad.setdefault(rec[bb].short, (bb, rec[bb]))
    r.instances += len(rec)
    r.nontrivial += len(rec) - len(terminal)
    r.analysed = {"recursive_compile_calls": len(rec), "of_which_compile_the_finally_block": len(terminal), "states": n,
                  "unprotected_after_catch_entry": sorted(s.rsplit("::", 1)[-1] for s in bad)}
    r.sample({"fn": fn.qual, "events": {line_of(fn, b): e for b, e in sorted(ev.items())},
              "unprotected": {s.rsplit("::", 1)[-1]: c.line for s, (b, c) in bad.items()}})
    if ex.truncated:
        r.undecided.append(f"{fn.qual}: state space truncated")
    if bad:
        first = min(bad.values(), key=lambda x: x[1].line)
        r.add(Finding("R-FINALLY-CATCH", fn.qual, "catch-blocks:no-catch-point",
                      f"the code compiled after the catch entry ({', '.join(sorted(s.rsplit('::', 1)[-1] for s in bad))}; first at line "
                      f"{first[1].line}) runs with no catch point registered: an error thrown inside a catch block -- or the "
                      f"rethrow of a value that no catch block accepts -- leaves the try expression without running its "
                      f"`finally` block", fn.file, first[1].line))
    return r
