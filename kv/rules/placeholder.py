"""R-PLACEHOLDER: every jump placeholder is patched, exactly by the list it was filed in (C03, C05, C01)."""
from ..engine import Broken, Finding, RuleResult, require
from ..mir import line_of, op_base, op_local, op_place, place_fields
from ..typestate import Explorer
from .compiler import COMP, compiler_methods, ret_class_of_block

CREATE = COMP + "push_offset_placeholder"
UPDATE = COMP + "update_offset_placeholder"
LOOP_FILE = "koto_bytecode::Frame::push_loop_jump_placeholder"
DEREF = ("ops::deref::Deref::deref", "ops::deref::DerefMut::deref_mut")

PASS_THROUGH = ("Try::branch", "Option::unwrap", "Result::unwrap", "Option::expect", "Result::expect", "Clone::clone",
                "Deref::deref", "DerefMut::deref_mut", "Option::as_ref", "Option::copied", "Option::cloned",
                "Iterator::flatten", "Iterator::copied", "Iterator::cloned", "Iterator::rev", "Iterator::by_ref",
                "Iterator::next", "Iterator::enumerate", "Option::unwrap_or_default", "Option::take")
ITER_CREATE = ("slice::iter", "IntoIterator::into_iter", "Vec::drain", "SmallVec::drain", "SmallVec::iter", "Vec::iter",
               "slice::iter_mut", "Option::iter")
COLL_PUSH = ("Vec::push", "SmallVec::push")
COLL_CLEAR = ("Vec::clear", "SmallVec::clear", "Vec::truncate", "SmallVec::truncate")
COLL_EMPTY = ("Vec::is_empty", "SmallVec::is_empty", "slice::is_empty")


def _is_ph_collection(crate, ty, depth=0):
    """Vec/SmallVec/slice of usize or Option<usize> (through references)"""
    t = crate.types[ty]
    while t["k"] in ("ref", "refmut") and depth < 4:
        t = crate.types[t["a"][0]]
        depth += 1
    if t["k"] == "slice" or t["k"] == "array":
        return _is_ph_elem(crate, t["a"][0])
    if t["k"] == "adt":
        last = crate.defs[t["d"]].rsplit("::", 1)[-1]
        if last in ("Vec", "SmallVec"):
            return any(_is_ph_elem(crate, a) or _is_ph_collection(crate, a, depth + 1) for a in t.get("a", [])[:1])
    return False


def _is_ph_elem(crate, ty):
    t = crate.types[ty]
    if t["k"] == "uint" and t["s"] == "usize":
        return True
    if t["k"] == "adt" and crate.defs[t["d"]].endswith("option::Option"):
        return any(_is_ph_elem(crate, a) for a in t.get("a", []))
    return False


class PH:
    def __init__(self, cx):
        self.cx = cx
        self.fns = compiler_methods(cx)
        self.wrappers = set()
        self._origin_cache = {}
        self._compute_wrappers()

    # ---- creation
    def is_creation(self, c):
        return c.short == CREATE or (c.resolved in self.wrappers)

    def collect_of_wrapper(self, c):
        if c.is_("Iterator::collect", "FromIterator::from_iter") or c.short.endswith("iter::try_process"):
            return any(x in self.wrappers for x in (c.cb + c.cl))
        return False

    def _compute_wrappers(self):
        changed = True
        while changed:
            changed = False
            for fn in self.fns:
                if fn.name in self.wrappers or fn.qual in (CREATE, UPDATE):
                    continue
                rty = fn.crate.tstr(fn.local_ty(0))
                if "usize" not in rty:
                    continue
                self._origin_cache = {k: v for k, v in self._origin_cache.items() if k[0] != fn.name}
                if any(t[0] == "site" for t in self.origins(fn, 0)):
                    self.wrappers.add(fn.name)
                    self._origin_cache = {}
                    changed = True

    # ---- where does a value come from
    def origins(self, fn, local, seen=None):
        key = (fn.name, local)
        if seen is None:
            if key in self._origin_cache:
                return self._origin_cache[key]
            seen = set()
        if local in seen:
            return set()
        seen.add(local)
        du = self.cx.du(fn)
        out = set()
        for d in du.defs.get(local, []):
            if d[2] == "call" or (d[2] == "partial" and not isinstance(d[3], list)):
                c = d[3]
                if self.is_creation(c):
                    out.add(("site", c.bb))
                elif self.collect_of_wrapper(c):
                    out.add(("collect", c.bb))
                elif c.is_(*ITER_CREATE) and c.args and (_is_ph_collection(fn.crate, c.arg_ty(0)) or self._arg_is_coll_iter(fn, c, seen)):
                    l = op_base(c.args[0])
                    inner = self.origins(fn, l, seen) if l is not None else set()
                    if any(t[0] == "iter" for t in inner):
                        out |= inner
                    else:
                        out.add(("iter", c.bb))
                elif c.is_(*PASS_THROUGH) and c.args:
                    l = op_base(c.args[0])
                    if l is not None:
                        out |= self.origins(fn, l, seen)
            else:
                rv = d[3]
                k = rv[0]
                if k in ("use", "cast"):
                    op = rv[1] if k == "use" else rv[2]
                    l = op_base(op)
                    if l is not None:
                        out |= self.origins(fn, l, seen)
                elif k in ("ref", "rawptr"):
                    out |= self.origins(fn, rv[2][0], seen)
                elif k == "agg":
                    for o in rv[2]:
                        l = op_base(o)
                        if l is not None:
                            out |= self.origins(fn, l, seen)
        if len(seen) == 1:
            self._origin_cache[key] = out
        return out

    def _arg_is_coll_iter(self, fn, c, seen):
        l = op_base(c.args[0])
        if l is None:
            return False
        return any(t[0] in ("iter", "collect") for t in self.origins(fn, l, set(seen)))

    # ---- collection identity
    def coll_key(self, fn, operand_or_local, _depth=0):
        """identity of the collection a (reference) operand denotes: ('call', bb, fields) for locals created by a call,
        ('arg', n, fields) for parameter-rooted ones, ('multi', l, fields) otherwise"""
        du = self.cx.du(fn)
        if isinstance(operand_or_local, int):
            l = operand_or_local
            fields = []
        else:
            p = op_place(operand_or_local)
            if p is None:
                return None
            l = p[0]
            fields = place_fields(p)
        root = du.root(l, through_calls=DEREF + ("Try::branch",))
        if root[0] == "field":
            fields = list(root[2]) + fields
            root = root[1]
        fields = tuple(f for f in fields if f not in ("0",))  # `?` Continue payload
        if root[0] == "call":
            # a selector method: `jumps.pattern_failed(flag)` hands out `&mut` access to one of the lists of its receiver --
            # the collection is (part of) the receiver, not a new one
            c = root[1]
            rt = fn.local_tstr(c.dest[0]) or ""
            if rt.startswith("&mut ") and c.args and _depth < 4 and _is_ph_collection(fn.crate, fn.local_ty(c.dest[0])) \
                    and c.resolved in self.cx.F.fns and (fn.crate.tstr(c.arg_ty(0)) or "").startswith("&mut "):
                k = self.coll_key(fn, c.args[0], _depth + 1)
                if k is not None:
                    return (k[0], k[1], tuple(k[2]) + ("*",) + fields)
            return ("call", root[1].bb, fields)
        if root[0] == "arg":
            return ("arg", root[1], fields)
        if root[0] == "multi":
            # a reference local assigned in several branches (`let jumps = if c {&mut a.x} else {&mut a.y}`):
            # parameter-rooted if every definition is
            keys = []
            for d in du.defs.get(root[1], []):
                if d[2] == "assign" and d[3][0] in ("ref", "use"):
                    src = d[3][2] if d[3][0] == "ref" else op_place(d[3][1])
                    if src is not None and src[0] != root[1] and _depth < 4:
                        k = self.coll_key(fn, ["c", src], _depth + 1)
                        keys.append(k)
                        continue
                keys.append(None)
            if keys and all(k is not None and k[0] == "arg" for k in keys):
                return ("arg", keys[0][1], tuple(keys[0][2]) + fields)
            if keys and all(k is not None and k == keys[0] for k in keys):
                return (keys[0][0], keys[0][1], tuple(keys[0][2]) + fields)
            return ("multi", root[1], fields)
        if root[0] == "rv":
            return ("rv", root[2], fields)
        return None


def rule_placeholder(cx, tier):
    r = RuleResult("R-PLACEHOLDER", "every jump placeholder created by push_offset_placeholder (or a wrapper that "
                                    "returns one) is, on every non-error path, patched with update_offset_placeholder, "
                                    "filed in a placeholder list that its owner patches, handed to the loop's list, or "
                                    "returned to the caller")
    cx.need_fn(CREATE)
    cx.need_fn(UPDATE)
    ph = PH(cx)
    n_create = n_update = n_loop = 0
    insts = []
    for fn in ph.fns:
        if fn.qual in (CREATE, UPDATE):
            continue
        cs = [c for c in fn.calls() if ph.is_creation(c) or ph.collect_of_wrapper(c)]
        us = [c for c in fn.calls() if c.short == UPDATE]
        n_create += len([c for c in cs if c.short == CREATE])
        n_update += len(us)
        n_loop += len([c for c in fn.calls() if c.short == COMP + "push_loop_jump_placeholder"])
        if cs or us:
            insts.append((fn, cs, us))
    wrappers = sorted(cx.F.fns[w].qual for w in ph.wrappers)
    r.analysed = {"functions": len(insts), "push_offset_placeholder_sites": n_create,
                  "update_offset_placeholder_sites": n_update, "push_loop_jump_placeholder_sites": n_loop,
                  "wrappers_returning_a_placeholder": wrappers}
    r.floor("push_offset_placeholder call sites", n_create, 18)
    r.floor("update_offset_placeholder call sites", n_update, 13)
    r.floor("push_loop_jump_placeholder call sites", n_loop, 4)
    require(any(w.endswith("compile_check_type") for w in wrappers), "R-PLACEHOLDER: compile_check_type is no longer "
            "recognised as a wrapper returning a placeholder")
    colls_seen = set()
    for fn, cs, us in insts:
        res = _check_fn(cx, ph, fn)
        r.instances += len(cs) + len(res["collections"])
        r.nontrivial += len(cs) + len(res["collections"])
        for k in res["collections"]:
            colls_seen.add((fn.qual, k))
        for kind, what, bb, path in res["bad"]:
            if kind == "live":
                site_call = fn.call_at(what)
                ordinal = [c.bb for c in cs].index(what) + 1 if what in [c.bb for c in cs] else 0
                slot = f"placeholder#{ordinal}:{site_call.short.rsplit('::', 1)[-1] if site_call else '?'}"
                msg = (f"the placeholder created at line {site_call.line if site_call else '?'} can reach a non-error "
                       f"return unpatched: its jump keeps offset 0 and falls through into the following code")
                line = site_call.line if site_call else fn.line
            elif kind == "dirty":
                slot = f"collection:{_coll_name(fn, what)}"
                msg = (f"placeholders filed in `{_coll_name(fn, what)}` are not patched on a non-error path of the "
                       f"function that owns the list")
                line = line_of(fn, bb)
            else:
                slot = f"cleared:{_coll_name(fn, what)}"
                msg = f"`{_coll_name(fn, what)}` is cleared while it can still hold unpatched placeholders"
                line = line_of(fn, bb)
            r.add(Finding("R-PLACEHOLDER", fn.qual, slot, msg, fn.file, line,
                          [f"bb{b} {fn.file}:{line_of(fn, b)}" + (f" {fn.call_at(b).short}" if fn.call_at(b) is not None else "") for b in path][-60:]))
        if res["undecided"]:
            r.undecided.append(f"{fn.qual}: {res['undecided']}")
        r.sample({"fn": fn.qual, "creation_sites": len(cs), "updates": len(us),
                  "collections": sorted(_coll_name(fn, k) for k in res["collections"]), "states": res["states"],
                  "verdict": "violation" if res["bad"] else ("undecided" if res["undecided"] else "ok")}, limit=40)
    r.analysed["collections"] = len(colls_seen)
    r.floor("placeholder collections", len(colls_seen), 6)
    return r


def _coll_name(fn, key):
    kind, ident, fields = key
    base = None
    if kind == "call":
        c = fn.call_at(ident)
        if c is not None:
            base = fn.local_name(c.dest[0])
    elif kind in ("arg", "multi"):
        base = fn.local_name(ident)
    elif kind == "collect":
        base = "collected"
    name = base or f"{kind}{ident}"
    if fields:
        name += "." + ".".join(fields)
    return name


def _struct_ph_fields(cx, crate, ty):
    """names of the placeholder-collection fields of a struct type (through references)"""
    t = crate.types[ty]
    d = 0
    while t["k"] in ("ref", "refmut") and d < 4:
        t = crate.types[t["a"][0]]
        d += 1
    if t["k"] != "adt":
        return []
    a = cx.F.adts.get(crate.defs[t["d"]])
    if not a or a["kind"] != "struct":
        return []
    ac = a["crate"]
    out = []
    for f in a["variants"][0]["fields"]:
        if _is_ph_collection(ac, f[1]):
            out.append(f[0])
    return out


def _closure_drains(cx, ph, fn):
    """blocks of iterator-creating calls whose iterator is consumed by `try_for_each` / `for_each` with a closure that hands
    its item to update_offset_placeholder (`list.iter().try_for_each(|p| self.update_offset_placeholder(*p))?`)"""
    out = set()
    for c in fn.calls():
        if not c.is_("Iterator::try_for_each", "Iterator::for_each") or not c.args:
            continue
        patches = False
        for name in c.cl or []:
            g = cx.F.fns.get(name)
            if g is None:
                continue
            dug = cx.du(g)
            for c2 in g.calls():
                if c2.short == UPDATE and len(c2.args) > 1:
                    l2 = op_base(c2.args[1])
                    rr = dug.root(l2) if l2 is not None else None
                    if rr is not None and rr[0] == "field":
                        rr = rr[1]
                    if rr is not None and rr[0] == "arg" and rr[1] >= 2:
                        patches = True
        if not patches:
            continue
        l = op_base(c.args[0])
        if l is None:
            continue
        for t in ph.origins(fn, l):
            if t[0] == "iter":
                out.add(t[1])
    return out


def _check_fn(cx, ph, fn):
    du = cx.du(fn)
    crate = fn.crate
    calls = {c.bb: c for c in fn.calls()}
    ex = Explorer(cx, fn)
    bad = []
    undecided = []
    collections = set()
    reach_create = cx.cg.reach_set({cx.need_fn(CREATE).name})

    # drains: iterator-creating calls on a collection whose items reach update_offset_placeholder
    consumed_iters = set()
    for c in fn.calls():
        if c.short == UPDATE and len(c.args) > 1:
            l = op_base(c.args[1])
            if l is not None:
                for t in ph.origins(fn, l):
                    if t[0] == "iter":
                        consumed_iters.add(t[1])
    consumed_iters |= _closure_drains(cx, ph, fn)
    drains = {}
    for bb in consumed_iters:
        c = calls.get(bb)
        if c is None or not c.args:
            continue
        k = None
        l = op_base(c.args[0])
        # a collection produced by collect() of a wrapper closure
        if l is not None:
            og = ph.origins(fn, l)
            for t in og:
                if t[0] == "collect":
                    k = ("collect", t[1], ())
        if k is None:
            k = ph.coll_key(fn, c.args[0])
        if k is not None:
            drains[bb] = k

    # is_empty tests: switch block -> (collection key, set of targets where the collection is empty)
    empty_edges = {}
    for b in fn.blocks:
        if b.cleanup or b.term[0] != "switch":
            continue
        l = op_local(b.term[1])
        neg = False
        hops = 0
        while l is not None and hops < 4:
            hops += 1
            d = du.single_def(l)
            if d is None:
                break
            if d[2] == "call":
                c = d[3]
                if c.is_(*COLL_EMPTY) and c.args:
                    k = ph.coll_key(fn, c.args[0])
                    if k is not None:
                        t = b.term
                        empties = set()
                        for v, tb in t[2]:
                            truth = (v != 0) != neg
                            if truth:
                                empties.add(tb)
                        listed = {v for v, _ in t[2]}
                        # otherwise edge: value not listed
                        if listed == {0}:
                            if not neg:
                                empties.add(t[3])
                        elif listed == {1}:
                            if neg:
                                empties.add(t[3])
                        empty_edges[b.idx] = (k, empties)
                break
            rv = d[3]
            if rv[0] == "un" and rv[1] == "Not":
                neg = not neg
                l = op_local(rv[2])
                continue
            if rv[0] == "use":
                l = op_local(rv[1])
                continue
            break

    def site_origins(op):
        l = op_base(op)
        if l is None:
            return set()
        return {t[1] for t in ph.origins(fn, l) if t[0] == "site"}

    def transfer(bb, st):
        live, dirty, rcls = st
        c = calls.get(bb)
        if c is not None:
            if ph.collect_of_wrapper(c):
                k = ("collect", c.bb, ())
                collections.add(k)
                dirty = dirty | {k}
            elif ph.is_creation(c):
                live = live | {c.bb}
            elif c.short == UPDATE and len(c.args) > 1:
                live = live - site_origins(c.args[1])
            elif c.short == LOOP_FILE and len(c.args) > 1:
                live = live - site_origins(c.args[1])
            elif c.is_(*COLL_PUSH) and len(c.args) > 1 and _is_ph_collection(crate, c.arg_ty(0)):
                so = site_origins(c.args[1])
                k = ph.coll_key(fn, c.args[0])
                if so:
                    live = live - so
                    if k is not None and k[0] != "arg":
                        collections.add(k)
                        dirty = dirty | {k}
                    elif k is None:
                        undecided.append(f"push at line {c.line} into an unidentified collection")
            elif c.is_(*COLL_CLEAR) and c.args and _is_ph_collection(crate, c.arg_ty(0)):
                k = ph.coll_key(fn, c.args[0])
                if k is not None and k in dirty:
                    bad.append(("cleared", k, bb, []))
                    dirty = dirty - {k}
            elif bb in drains:
                dirty = dirty - {drains[bb]}
            elif c.resolved in reach_create and c.resolved in cx.F.fns:
                # a callee that can create placeholders receives `&mut` access to a local collection / struct
                for i, a in enumerate(c.args):
                    aty = c.arg_ty(i)
                    for k in _escaping_collections(cx, ph, fn, a, aty):
                        if k[0] != "arg":
                            collections.add(k)
                            dirty = dirty | {k}
        # returning a placeholder hands the obligation to the caller
        for stt in fn.blocks[bb].stmts:
            if stt[0] == "a" and stt[1][0] == 0:
                for o in _rv_ops(stt[2]):
                    live = live - site_origins(o)
                    l = op_base(o)
                    if l is not None:
                        for t in ph.origins(fn, l):
                            if t[0] == "collect":
                                dirty = dirty - {("collect", t[1], ())}
        if c is not None and c.dest[0] == 0 and ph.is_creation(c):
            live = live - {c.bb}
        cls = ret_class_of_block(cx, fn, bb)
        if cls is not None:
            rcls = cls
        return (live, dirty, rcls)

    def at_exit(bb, st, pathf):
        live, dirty, rcls = st
        if rcls == "err":
            return
        for s in live:
            if not any(b[0] == "live" and b[1] == s for b in bad):
                bad.append(("live", s, bb, pathf()))
        for k in dirty:
            if not any(b[0] == "dirty" and b[1] == k for b in bad):
                bad.append(("dirty", k, bb, pathf()))

    # `if let Some(p) = maybe_placeholder`: on the None outcome of a test of an Option<usize> that holds a placeholder
    # obtained from a wrapper call there is nothing to patch
    none_edges = {}
    for b in fn.blocks:
        if b.cleanup or b.term[0] != "switch":
            continue
        dl = op_base(b.term[1])
        dd = du.single_def(dl) if dl is not None else None
        if dd is None or dd[2] != "assign" or dd[3][0] != "discr" or dd[3][1][1]:
            continue
        hl = dd[3][1][0]
        ts = fn.local_tstr(hl) or ""
        if "Option<usize>" not in ts or "Result<" in ts:
            continue
        sites = {t[1] for t in ph.origins(fn, hl) if t[0] == "site"}
        if not sites:
            continue
        listed = {v for v, _ in b.term[2]}
        tg = {tb for v, tb in b.term[2] if v == 0}
        if 0 not in listed and listed == {1}:
            tg.add(b.term[3])
        if tg:
            none_edges[b.idx] = (sites, tg)

    def on_edge(bb, succ, st):
        ne = none_edges.get(bb)
        if ne is not None and succ in ne[1]:
            live, dirty, rcls = st
            st = (live - ne[0], dirty, rcls)
        ee = empty_edges.get(bb)
        if ee is not None and succ in ee[1]:
            live, dirty, rcls = st
            k = ee[0]
            dirty = frozenset(x for x in dirty if not (x == k or (x[0] == k[0] and x[1] == k[1] and x[2] == k[2])))
            return (live, dirty, rcls)
        return st

    n = ex.run((frozenset(), frozenset(), None), transfer, at_exit, on_edge=on_edge)
    if ex.truncated:
        undecided.append("state space truncated")
    return {"bad": bad, "undecided": "; ".join(sorted(set(undecided))), "states": n, "collections": collections}


def _rv_ops(rv):
    from ..mir import rv_operands
    return rv_operands(rv)


def _escaping_collections(cx, ph, fn, operand, aty, depth=0):
    """collections (keys) of this function that the argument gives the callee mutable access to"""
    crate = fn.crate
    out = []
    t = crate.types[aty]
    l = op_base(operand)
    if l is None:
        return out
    if t["k"] == "refmut":
        if _is_ph_collection(crate, aty):
            k = ph.coll_key(fn, operand)
            if k is not None:
                out.append(k)
        else:
            for fname in _struct_ph_fields(cx, crate, aty):
                k = ph.coll_key(fn, operand)
                if k is not None:
                    out.append((k[0], k[1], tuple(k[2]) + (fname,)))
    elif t["k"] == "adt" and depth < 2:
        # a by-value struct that carries `&mut` references (e.g. MatchArmParameters { jumps: &mut .. })
        du = cx.du(fn)
        d = du.single_def(l)
        if d is not None and d[2] == "assign" and d[3][0] == "agg":
            a = cx.F.adts.get(crate.defs[t["d"]])
            if a and a["kind"] == "struct":
                ac = a["crate"]
                for (fname, fty, _vis), o in zip(a["variants"][0]["fields"], d[3][2]):
                    ft = ac.types[fty]
                    if ft["k"] == "refmut":
                        ol = op_base(o)
                        if ol is None:
                            continue
                        oty = fn.local_ty(ol) if not op_place(o)[1] else op_place(o)[2]
                        out.extend(_escaping_collections(cx, ph, fn, o, oty, depth + 1))
    return out


# ---------------------------------------------------------------------------------------------
# R-MATCH-ORDER (C03): the three jump lists of a match arm are patched where the code says they are

def rule_match_order(cx, tier):
    r = RuleResult("R-MATCH-ORDER", "the jump mesh of a match arm lands where the arm's structure requires: "
                                    "`alternative_end` is patched inside the alternatives loop, `match_end` (taken after a "
                                    "successful non-last alternative) is patched after that loop and before the arm's guard "
                                    "is compiled, `arm_end` (failed match / failed guard) after the arm's body")
    fn = cx.need_fn(COMP + "compile_match_arm")
    cfg = cx.cfg(fn)
    du = cx.du(fn)
    ph = PH(cx)
    # drains per field
    consumed = {}
    for c in fn.calls():
        if c.short == UPDATE and len(c.args) > 1:
            l = op_base(c.args[1])
            if l is not None:
                for t in ph.origins(fn, l):
                    if t[0] == "iter":
                        it = fn.call_at(t[1])
                        k = ph.coll_key(fn, it.args[0]) if it is not None and it.args else None
                        if k is not None and k[2]:
                            # the patch point is where the iteration over the list starts (the loop may run 0 times)
                            consumed.setdefault(k[2][-1], set()).add(t[1])
    for bb in _closure_drains(cx, ph, fn):
        it = fn.call_at(bb)
        k = ph.coll_key(fn, it.args[0]) if it is not None and it.args else None
        if k is not None and k[2]:
            consumed.setdefault(k[2][-1], set()).add(bb)
    require(consumed, "R-MATCH-ORDER: no patch loop over any jump list found in compile_match_arm")
    missing = [need for need in ("alternative_end", "match_end", "arm_end") if need not in consumed]
    for need in missing:
        r.instances += 1
        r.add(Finding("R-MATCH-ORDER", fn.qual, f"{need}:no-patch-loop",
                      f"compile_match_arm has no loop that patches the placeholders filed in jumps.{need}: those jumps keep "
                      f"offset 0", fn.file, fn.line))
    if missing:
        return r
    # the guard and the body: compile_node calls whose node argument comes from the MatchArm's fields
    def node_calls(field):
        out = []
        for c in fn.calls():
            if c.short != COMP + "compile_node" or len(c.args) < 2:
                continue
            l = op_base(c.args[1])
            seen = 0
            while l is not None and seen < 10:
                seen += 1
                if fn.local_name(l) == field:
                    out.append(c)
                    break
                d = du.single_def(l)
                if d is None or d[2] != "assign":
                    break
                rv = d[3]
                pl = op_place(rv[1]) if rv[0] == "use" else (rv[2] if rv[0] == "ref" else None)
                if pl is None:
                    break
                if field in place_fields(pl):
                    out.append(c)
                    break
                l = pl[0]
        return out
    guard = node_calls("condition")
    body = node_calls("expression")
    require(guard and body, "R-MATCH-ORDER: the compile_node calls for the arm's condition / expression were not found")
    loops = [cfg.natural_loop(t, h) for (t, h) in cfg.back_edges()]
    # the alternatives loop: the loop that contains the fill call (compile_match_arm_patterns)
    fills = [c for c in fn.calls() if c.short == COMP + "compile_match_arm_patterns"]
    require(fills, "R-MATCH-ORDER: compile_match_arm_patterns call not found")
    alt_loops = [l for l in loops if fills[0].bb in l]
    require(alt_loops, "R-MATCH-ORDER: the alternatives loop was not found")
    alt_loop = max(alt_loops, key=len)
    r.analysed = {"guard_calls": len(guard), "body_calls": len(body), "alternatives_loop_blocks": len(alt_loop)}
    checks = [
        ("alternative_end:in-loop", all(b in alt_loop for b in consumed["alternative_end"]),
         "jumps.alternative_end is not patched inside the alternatives loop: a failed alternative no longer jumps to the "
         "next alternative"),
        ("match_end:after-loop", all(b not in alt_loop for b in consumed["match_end"]),
         "jumps.match_end is patched inside the alternatives loop"),
        ("match_end:before-guard", all(any(cfg.dominates(b, g.bb) for b in consumed["match_end"]) for g in guard) and
         not any(b in cfg.reachable_after(g.bb) for g in guard for b in consumed["match_end"]),
         "jumps.match_end is not patched before the arm's guard is compiled: a successful non-last `or` alternative jumps "
         "past the guard straight into the arm's body, so the arm runs with a false guard"),
        ("arm_end:after-body", all(any(b in cfg.reachable_after(x.bb) for b in consumed["arm_end"]) for x in body) and
         not any(cfg.dominates(b, x.bb) for x in body for b in consumed["arm_end"]),
         "jumps.arm_end is not patched after the arm's body: a failed match or guard falls into the body"),
    ]
    for slot, ok, msg in checks:
        r.instances += 1
        r.nontrivial += 1
        if not ok:
            r.add(Finding("R-MATCH-ORDER", fn.qual, slot, msg, fn.file, fn.line))
        r.sample({"check": slot, "ok": ok})
    return r


def rule_match_target(cx, tier):
    """R-MATCH-TARGET: which list a pattern's jump is filed in agrees with the position of the alternative."""
    from .narrow import _switch_outcomes
    r = RuleResult("R-MATCH-TARGET",
                   "in the routines that compile the patterns of one `or` alternative (those taking MatchArmParameters), "
                   "a jump is filed in `jumps.arm_end` (skip the arm) only where `params.is_last_alternative` is true and "
                   "in `jumps.alternative_end` (try the next alternative; for the last alternative that position is the "
                   "arm's guard / body) only where it is false, and nested calls pass `is_last_alternative` on unchanged")
    subjects = []
    for fn in compiler_methods(cx):
        if any("MatchArmParameters" in (fn.local_tstr(i) or "") for i in range(1, fn.argc + 1)):
            subjects.append(fn)
    r.floor("routines taking MatchArmParameters", len(subjects), 2)
    want = {"arm_end": "true", "alternative_end": "false"}
    per_field = {"arm_end": 0, "alternative_end": 0}
    for fn in subjects:
        cfg = cx.cfg(fn)
        du = cx.du(fn)
        params = [i for i in range(1, fn.argc + 1) if "MatchArmParameters" in (fn.local_tstr(i) or "")]
        # switches on the parameter's flag
        ila = []
        for b in fn.blocks:
            so = _switch_outcomes(cx, fn, b)
            for (l, te, fe) in so or []:
                d = du.single_def(l)
                if d is None or d[2] != "assign" or d[3][0] != "use":
                    continue
                pl = op_place(d[3][1])
                if pl is not None and pl[0] in params and place_fields(pl) == ["is_last_alternative"]:
                    ila.append((b.idx, te, fe))

        def side(site):
            out = set()
            for (sb, te, fe) in ila:
                for name, es in (("true", te), ("false", fe)):
                    if any((e == site or cfg.dominates(e, site)) and set(cfg.pred[e]) <= {sb} for e in es):
                        out.add(name)
            return out
        for b in fn.blocks:
            if b.cleanup:
                continue
            for stt in b.stmts:
                if stt[0] != "a" or stt[2][0] != "ref" or stt[2][1] not in ("mut", "two_phase", "unique"):
                    continue
                fs = place_fields(stt[2][2])
                f = fs[-1] if fs else None
                if f not in want:
                    continue
                r.instances += 1
                r.nontrivial += 1
                per_field[f] += 1
                s = side(b.idx)
                ok = s == {want[f]}
                r.sample({"fn": fn.qual.rsplit("::", 1)[-1], "list": f, "line": line_of(fn, b.idx), "on": sorted(s)})
                if not ok:
                    r.add(Finding("R-MATCH-TARGET", fn.qual, f"{f}:not-on-is_last_alternative={want[f]}",
                                  f"a jump is filed in jumps.{f} where `params.is_last_alternative` is not known to be "
                                  f"{want[f]} (on: {sorted(s) or 'no test of the flag'}): " +
                                  ("a mismatch in a non-last alternative skips the remaining alternatives"
                                   if f == "arm_end" else
                                   "a mismatch in the last alternative lands on the arm's guard / body, so the arm is "
                                   "selected despite the mismatch"), fn.file, line_of(fn, b.idx)))
            # nested parameter structs keep the flag
            for stt in b.stmts:
                if stt[0] == "a" and stt[2][0] == "agg" and stt[2][1][0] == "adt" and \
                        fn.crate.defs[stt[2][1][1]].endswith("MatchArmParameters"):
                    r.instances += 1
                    ops = stt[2][2]
                    ok = False
                    for o in ops:
                        pl = op_place(o)
                        for _ in range(4):
                            if pl is None or pl[1]:
                                break
                            d = du.single_def(pl[0])
                            pl = op_place(d[3][1]) if d is not None and d[2] == "assign" and d[3][0] == "use" else None
                        if pl is not None and pl[0] in params and place_fields(pl) == ["is_last_alternative"]:
                            ok = True
                    if not ok:
                        r.add(Finding("R-MATCH-TARGET", fn.qual, "nested:is_last_alternative-not-forwarded",
                                      "a nested MatchArmParameters is built without forwarding params.is_last_alternative",
                                      fn.file, line_of(fn, b.idx)))
    # selector methods: `fn pattern_failed(&mut self, is_last_alternative: bool) -> &mut SmallVec<..>` on the placeholder
    # struct choose the list by their bool parameter; inside them the same polarity is required, and every call from a pattern
    # routine has to pass `params.is_last_alternative`
    from .narrow import _switch_outcomes as _so
    for g in cx.F.crate_fns("koto_bytecode"):
        if g in subjects or g.kind == "Closure" or g.derived:
            continue
        if not any("MatchJumpPlaceholders" in (g.local_tstr(i) or "") for i in range(1, g.argc + 1)):
            continue
        bools = [i for i in range(1, g.argc + 1) if g.local_tstr(i) == "bool"]
        gcfg = cx.cfg(g)
        borrows = []
        for b in g.blocks:
            if b.cleanup:
                continue
            for stt in b.stmts:
                if stt[0] == "a" and stt[2][0] == "ref" and stt[2][1] in ("mut", "two_phase", "unique"):
                    fs = place_fields(stt[2][2])
                    if fs and fs[-1] in want:
                        borrows.append((fs[-1], b.idx))
        if not borrows or not bools:
            continue
        tests = []
        for b in g.blocks:
            for (l, te, fe) in _so(cx, g, b) or []:
                if l in bools:
                    tests.append((l, b.idx, te, fe))
        sel_param = None
        for (f, bb) in borrows:
            r.instances += 1
            r.nontrivial += 1
            sides = set()
            for (l, sb, te, fe) in tests:
                for name, es in (("true", te), ("false", fe)):
                    if any((e == bb or gcfg.dominates(e, bb)) and set(gcfg.pred[e]) <= {sb} for e in es):
                        sides.add(name)
                        sel_param = l
            if sides != {want[f]}:
                r.add(Finding("R-MATCH-TARGET", g.qual, f"{f}:selector-polarity",
                              f"the selector hands out jumps.{f} where its flag is not known to be {want[f]}", g.file,
                              line_of(g, bb)))
        if sel_param is None:
            continue
        for fn in subjects:
            du = cx.du(fn)
            params = [i for i in range(1, fn.argc + 1) if "MatchArmParameters" in (fn.local_tstr(i) or "")]
            for c in fn.calls():
                if c.resolved != g.name or len(c.args) < sel_param:
                    continue
                r.instances += 1
                r.nontrivial += 1
                per_field["arm_end"] += 1
                per_field["alternative_end"] += 1
                pl = op_place(c.args[sel_param - 1])
                for _ in range(4):
                    if pl is None or pl[1]:
                        break
                    d = du.single_def(pl[0])
                    pl = op_place(d[3][1]) if d is not None and d[2] == "assign" and d[3][0] == "use" else None
                ok = pl is not None and pl[0] in params and place_fields(pl) == ["is_last_alternative"]
                r.sample({"fn": fn.qual.rsplit("::", 1)[-1], "selector": g.qual.rsplit("::", 1)[-1], "line": c.line,
                          "flag_is_is_last_alternative": ok})
                if not ok:
                    r.add(Finding("R-MATCH-TARGET", fn.qual, f"selector-flag:{g.qual.rsplit('::', 1)[-1]}",
                                  f"the list for a mismatch jump is chosen by {g.qual.rsplit('::', 1)[-1]}() with a flag that is "
                                  f"not `params.is_last_alternative`", fn.file, c.line))
    r.floor("filings in jumps.arm_end", per_field["arm_end"], 3)
    r.floor("filings in jumps.alternative_end", per_field["alternative_end"], 3)
    r.analysed = {"routines": [f.qual.rsplit("::", 1)[-1] for f in subjects], **per_field}
    return r
