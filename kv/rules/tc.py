"""Type-check configuration non-interference: R-TC-FLAG, R-TC-PURE, R-TC-NULL-FIRST (C16)."""
from ..engine import Broken, Finding, RuleResult, require
from ..mir import line_of, op_base, op_local, op_place, place_fields, rv_places
from .common import operand_agg
from .compiler import COMP

FLAG = "enable_type_checks"
SETTINGS = "koto_bytecode::compiler::CompilerSettings"

# what may depend on the flag inside compile_assert_type: emission of the assert instruction, its span
ALLOWED_UNDER_FLAG = {
    COMP + "push_span", COMP + "pop_span", COMP + "push_op", COMP + "push_var_u32",
    "koto_bytecode::CompileNodeContext::node_with_span", "Option::is_some", "Option::is_none",
    "<T as Into>::into", "<u32 as From>::from", "<ConstantIndex as Into>::into", "koto_parser::<u32 as From<ConstantIndex>>::from",
}


def _flag_reads(cx):
    """[(fn, bb, line)] for every read of CompilerSettings.enable_type_checks in the workspace (derived impls excluded)"""
    out = []
    for fn in cx.F.fns.values():
        if fn.derived or fn.crate.uname in ("koto_test_utils",):
            continue
        c = fn.crate
        for b in fn.blocks:
            if b.cleanup:
                continue
            places = []
            for st in b.stmts:
                if st[0] == "a":
                    for pl in rv_places(st[2]):
                        places.append((pl, st[3] if len(st) > 3 else None))
            t = b.term
            if t[0] == "switch":
                p = op_place(t[1])
                if p is not None:
                    places.append((p, t[5]))
            elif t[0] == "call":
                for a in t[1]["args"]:
                    p = op_place(a)
                    if p is not None:
                        places.append((p, t[1]["loc"]))
            for pl, loc in places:
                for e in pl[1]:
                    if isinstance(e, list) and e[0] == "f" and len(e) > 3 and e[2] == FLAG and c.defs[e[3]] == SETTINGS:
                        from ..facts import loc_line
                        out.append((fn, b.idx, loc_line(loc) if loc is not None else fn.line))
    return out


def rule_tc_flag(cx, tier):
    r = RuleResult("R-TC-FLAG", "the enable_type_checks setting is read in exactly one function (compile_assert_type) "
                                "and everything control-dependent on it is the emission of the AssertType / "
                                "AssertOptionalType instruction with its span: no register allocation, no other "
                                "emission, no other state depends on it")
    require(SETTINGS in cx.F.adts, "R-TC-FLAG: CompilerSettings not found")
    reads = _flag_reads(cx)
    r.analysed = {"flag_reads": [(f.qual, l) for f, _, l in reads]}
    require(reads, "R-TC-FLAG: no read of CompilerSettings.enable_type_checks found (flag removed or renamed?)")
    home = cx.need_fn(COMP + "compile_assert_type")
    for fn, bb, line in reads:
        r.instances += 1
        r.nontrivial += 1
        if fn is not home:
            r.add(Finding("R-TC-FLAG", fn.qual, "extra-read", "enable_type_checks is consulted outside "
                          "compile_assert_type: disabling type checks can change more than the emission of assert "
                          "instructions", fn.file, line, [f"{fn.file}:{line} reads settings.{FLAG}"]))
    # the region under the flag in compile_assert_type
    fn = home
    cfg = cx.cfg(fn)
    du = cx.du(fn)
    home_reads = [bb for f, bb, _ in reads if f is fn]
    require(home_reads, "R-TC-FLAG: compile_assert_type no longer reads the flag")
    for bb in home_reads:
        t = fn.blocks[bb].term
        if t[0] != "switch":
            # the read feeds a switch in a later block: find it
            nb = bb
            for _ in range(3):
                s = cfg.succ[nb]
                if len(s) != 1:
                    break
                nb = s[0]
                if fn.blocks[nb].term[0] == "switch":
                    break
            t = fn.blocks[nb].term
            bb = nb
        if t[0] != "switch":
            r.undecided.append(f"{fn.qual}: the flag read at bb{bb} does not feed a switch directly")
            continue
        true_edges = [t[3]] if all(v == 0 for v, _ in t[2]) else [tb for v, tb in t[2] if v != 0]
        region = set()
        for e in true_edges:
            region |= {b for b in cfg.reachable({e}) if cfg.dominates(e, b)}
        ops = set()
        for c in fn.calls():
            if c.bb not in region:
                continue
            r.instances += 1
            r.nontrivial += 1
            # a pure Option combinator whose closure only makes allowed calls (`span.map(|i| ctx.node_with_span(i))`)
            pure_comb = c.is_("Option::map", "Option::and_then", "Option::as_ref", "Option::copied", "Option::cloned",
                              "Option::filter", "Option::is_some_and") and \
                all(all(c3.short in ALLOWED_UNDER_FLAG or c3.is_("Into::into", "From::from")
                        for c3 in cx.F.fns[g].calls()) for g in (c.cl or []) if g in cx.F.fns)
            if c.short in ALLOWED_UNDER_FLAG or c.is_("Into::into", "From::from") or pure_comb:
                if c.short == COMP + "push_op" and len(c.args) > 1:
                    ag = operand_agg(du, c.args[1])
                    l = op_local(c.args[1])
                    # the op may be chosen by an if: collect all aggregate variants assigned to the operand
                    hops = 0
                    while l is not None and hops < 4:
                        sd = du.single_def(l)
                        if sd is not None and sd[2] == "assign" and sd[3][0] == "use" and op_local(sd[3][1]) is not None:
                            l = op_local(sd[3][1])
                            hops += 1
                        else:
                            break
                    if l is not None:
                        for d in du.defs.get(l, []):
                            if d[2] == "assign" and d[3][0] == "agg" and d[3][1][0] == "adt":
                                ops.add(d[3][1][2])
                            elif d[2] == "assign" and d[3][0] == "use":
                                a2 = operand_agg(du, d[3][1])
                                if a2:
                                    ops.add(a2[1])
                continue
            r.add(Finding("R-TC-FLAG", fn.qual, f"under-flag:{c.short.rsplit('::', 1)[-1]}", f"{c.short} is called only "
                          f"when type checks are enabled: compiling with checks disabled changes more than the emission "
                          f"of the assert instruction", fn.file, c.line))
        bad_ops = sorted(o for o in ops if o not in ("AssertType", "AssertOptionalType"))
        if bad_ops:
            r.add(Finding("R-TC-FLAG", fn.qual, "op:" + ",".join(bad_ops), f"instructions other than the type "
                          f"assertions are emitted under the flag: {bad_ops}", fn.file, fn.line))
        r.sample({"fn": fn.qual, "region_blocks": len(region), "ops_emitted_under_flag": sorted(ops)})
    # compile_check_type (match / catch patterns) reads no settings at all
    chk = cx.need_fn(COMP + "compile_check_type")
    r.instances += 1
    r.nontrivial += 1
    reads_settings = any("settings" in place_fields(pl) for b in chk.blocks if not b.cleanup for st in b.stmts
                         if st[0] == "a" for pl in rv_places(st[2]))
    if reads_settings:
        r.add(Finding("R-TC-FLAG", chk.qual, "settings", "compile_check_type (type patterns in match arms and catch "
                      "blocks, which must keep selecting) reads the compiler settings", chk.file, chk.line))
    r.sample({"fn": chk.qual, "reads_settings": reads_settings})
    return r


def rule_tc_pure(cx, tier):
    r = RuleResult("R-TC-PURE", "a passing type assertion has no effect: run_assert_type and compare_value_type take "
                                "&self and their call closure contains no &mut KotoVm method, no mutable cell borrow "
                                "and no interpreter re-entry")
    VM = "koto_runtime::KotoVm::"
    roots = [cx.need_fn(VM + "run_assert_type"), cx.need_fn(VM + "compare_value_type")]
    from .borrow import BorrowInfo
    bi = BorrowInfo(cx)
    reent = cx.cg.reach_set({cx.need_fn(VM + "execute_instructions").name})
    mut_borrowers = {f for f, s in bi.direct.items() if any(m == "mut" for _, m in s)}
    for fn in roots:
        r.instances += 1
        r.nontrivial += 1
        t = fn.crate.types[fn.local_ty(1)]
        if t["k"] != "ref":
            r.add(Finding("R-TC-PURE", fn.qual, "self", "takes `&mut self`: a passing assertion may mutate the VM",
                          fn.file, fn.line))
    closure = cx.cg.closure_from({f.name for f in roots})
    # the failing path of run_assert_type builds an error message (value display can run user code); the property
    # speaks about checks that pass, so only the closure of compare_value_type is constrained for re-entrancy
    pure_closure = cx.cg.closure_from({roots[1].name})
    r.analysed = {"closure_size_run_assert_type": len(closure), "closure_size_compare_value_type": len(pure_closure)}
    r.floor("call closure of compare_value_type", len(pure_closure), 3)
    for name in sorted(pure_closure):
        f = cx.F.fns[name]
        r.instances += 1
        r.nontrivial += 1
        why = None
        if f.kind != "Closure" and f.qual.startswith(VM) and f.argc >= 1:
            t = f.crate.types[f.local_ty(1)]
            if t["k"] == "refmut":
                why = "a &mut KotoVm method"
        if name in mut_borrowers:
            why = "takes a mutable borrow of a shared cell"
        if name in reent:
            why = "can re-enter the interpreter"
        if why:
            p = cx.cg.path(roots[1].name, {name})
            r.add(Finding("R-TC-PURE", roots[1].qual, f"reaches:{f.qual.rsplit('::', 2)[-2]}::{f.method}",
                          f"the type comparison can reach {f.qual}, which is {why}: a type check that passes is no "
                          f"longer free of side effects", f.file, f.line, [cx.F.fns[x].qual for x in (p or [])]))
    r.sample({"closure": sorted(cx.F.fns[n].qual for n in pure_closure)[:20]})
    return r


def rule_tc_null_first(cx, tier):
    r = RuleResult("R-TC-NULL-FIRST", "`?` admits null for every hint name: in compare_value_type the test of allow_null "
                                      "is not control-dependent on any comparison of the expected type name")
    fn = cx.need_fn("koto_runtime::KotoVm::compare_value_type")
    cfg = cx.cfg(fn)
    du = cx.du(fn)
    # switches on the allow_null parameter (arg 4: self, value_register, type_index, allow_null)
    allow = None
    for l in range(1, fn.argc + 1):
        if fn.local_name(l) == "allow_null":
            allow = l
    require(allow is not None, "R-TC-NULL-FIRST: parameter allow_null not found")
    tests = []
    for b in fn.blocks:
        if b.cleanup or b.term[0] != "switch":
            continue
        l = op_base(b.term[1])
        if l == allow or (l is not None and du.root(l) == ("arg", allow)):
            tests.append(b.idx)
    require(tests, "R-TC-NULL-FIRST: no test of allow_null in compare_value_type")
    # comparisons of the type-name string
    name_cmps = [c for c in fn.calls() if c.is_("PartialEq::eq", "PartialEq::ne") or (c.pretty or "").endswith("bcmp")
                 or (c.pretty or "").endswith("memcmp")]
    name_src = [c for c in fn.calls() if c.short.endswith("get_constant_str")]
    r.analysed = {"allow_null_tests": len(tests), "name_comparisons": len(name_cmps)}
    r.instances = 1
    r.nontrivial = 1
    first = min(tests, key=lambda b: len(cfg.dominators().get(b, ())))
    offenders = [c for c in name_cmps + name_src if cfg.dominates(c.bb, first) and c.bb != first]
    if offenders:
        c = offenders[0]
        r.add(Finding("R-TC-NULL-FIRST", fn.qual, "order", f"the allow_null test is only reached after {c.short} "
                      f"(type-name handling): for some hint names `T?` no longer admits null", fn.file, c.line))
    r.sample({"fn": fn.qual, "allow_null_test_block": first, "dominating_name_handling": [c.short for c in offenders]})
    return r


# ---------------------------------------------------------------------------------------------
# R-TC-HINT-SIBLING (C16): a binding routine that checks the hint of `x: T` also checks the hint of `_: T`

def rule_tc_hint_sibling(cx, tier):
    from ..mir import rv_places, op_place
    r = RuleResult("R-TC-HINT-SIBLING",
                   "`Node::Id(id, hint)` and `Node::Ignored(name, hint)` carry the same optional type hint; every "
                   "koto_bytecode function that reads the hint of an `Id` (to assert / check it) reads the hint of an "
                   "`Ignored` as well -- a routine that handles only one of the two silently drops the check for `_: T` "
                   "(sibling evidence: all other binding routines read both)")
    subjects = 0
    for fn in cx.F.fns.values():
        if fn.crate.uname != "koto_bytecode" or fn.derived:
            continue
        reads = {}
        for b in fn.blocks:
            if b.cleanup:
                continue
            pls = []
            for st in b.stmts:
                if st[0] == "a":
                    pls += rv_places(st[2])
            c = fn.call_at(b.idx)
            if c is not None:
                pls += [op_place(a) for a in c.args if op_place(a) is not None]
            for pl in pls:
                proj = pl[1]
                for i, p in enumerate(proj):
                    if isinstance(p, list) and p[0] == "v" and p[1] in ("Id", "Ignored"):
                        nxt = proj[i + 1] if i + 1 < len(proj) else None
                        if isinstance(nxt, list) and nxt[0] == "f":
                            reads.setdefault(p[1], set()).add(nxt[1])
        if 1 not in reads.get("Id", ()):
            continue
        subjects += 1
        r.instances += 1
        r.nontrivial += 1
        ok = 1 in reads.get("Ignored", ())
        r.sample({"fn": fn.qual.rsplit("::", 1)[-1], "reads_hint_of_ignored": ok})
        if not ok:
            r.add(Finding("R-TC-HINT-SIBLING", fn.qual, "ignored-hint-never-read",
                          "this routine reads the type hint of `Node::Id` but never that of `Node::Ignored`: a typed "
                          "ignored binding (`_: T`, `key as _: T`) is accepted whatever the value's type", fn.file, fn.line))
    r.floor("routines that read the type hint of Node::Id", subjects, 6)
    r.analysed = {"routines": subjects}
    return r
