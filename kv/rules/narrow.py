"""R-NARROW (C05, C06): program-size quantities are not squeezed into one byte unchecked.

The compiler's operands are bytes.  Every quantity that grows with the program (the length of an AST vector, the index
of a loop over one, a count of locals / captures / arguments) has to be compared against the byte range -- and the
compilation refused with an error -- before it is narrowed with `as u8` / `as i8` or added up in u8 arithmetic.
A missing comparison is either a panic (debug-checked arithmetic: C06) or silently wrong code (C05: "exceeding a size
limit is reported as a compile error rather than producing code that misbehaves").

Decided per *site* in koto_bytecode:
  * narrowing integer casts (`IntToInt` to u8 / i8 / u16 from a wider type, operand not constant),
  * overflow-checked u8 / i8 arithmetic (`Assert(Overflow(..))`, `OverflowNeg`),
  * operand bytes that the instruction reader decodes as a *signed* byte (`byte as i8`): the writer's value must fit i8.
For each site the operand is rebuilt as a small expression tree over *size leaves* named from the source (`len(args)`,
`idx(args)` = index of an `enumerate()` over `args`, `count(..)`, parameters, fields, call results), and a magnitude
bound is computed by interval arithmetic from:
  - types (a u8 value is <= 255), constants, masks,
  - dominating upper-bound comparisons of the same leaf / the same expression against a constant, with the site on the
    bounded edge (polarity is checked); `idx(X)` is bounded by `len(X) - 1`,
  - register backing: a loop over X whose every iteration passes `push_register()?` bounds len(X) by the register file,
  - the Frame allocator's invariant (checked structurally here: who writes the counters, and the guards in front of it),
  - BOUNDED_BY_CALLER: parameters whose bound is established by the (only) callers; the callers' guards are looked up
    on every run, and the set of callers is compared with the call graph (fail closed).
A site whose bound exceeds the target type's range, or is unknown, is a violation naming the leaf that lacks a bound.
"""
from ..engine import Finding, RuleResult, require
from ..facts import loc_line
from ..mir import Cfg, _dominators, op_base, op_int, op_place
from . import arith

CRATE = "koto_bytecode"
COMP = "koto_bytecode::Compiler::"
FRAME = "koto_bytecode::Frame::"
INF = float("inf")
TMAX = {"u8": 255, "i8": 127, "u16": 65535, "i16": 32767, "bool": 1}
NARROW = {"u8": 8, "i8": 8, "u16": 16}
WIDTH = {"u8": 8, "i8": 8, "u16": 16, "i16": 16, "u32": 32, "i32": 32, "u64": 64, "i64": 64, "usize": 64, "isize": 64,
         "u128": 128, "i128": 128}
UNSIGNED = {"u8", "u16", "u32", "u64", "usize", "u128", "bool"}
TRANSPARENT = ("From::from", "Into::into", "Clone::clone", "Deref::deref", "DerefMut::deref_mut", "AsRef::as_ref",
               "Borrow::borrow", "IntoIterator::into_iter", "Iterator::enumerate", "Iterator::by_ref", "Iterator::rev",
               "Iterator::peekable", "Iterator::cloned", "Iterator::copied", "Try::branch", "Iterator::zip",
               "Result::map_err")
ITER_SRC = ("iter", "iter_mut", "into_iter", "as_slice", "as_ref", "deref", "to_vec", "clone")
REG_FILE = 254      # a register-backed count: every element owns one of the registers 1..=254


PLAIN_VARIANTS = {"Some", "None", "Ok", "Err", "Continue", "Break"}


def place_fields(place):
    """field path of a place; tuple fields (unnamed in the facts) by index; downcasts to a variant of a workspace enum
    are part of the path (`node<SmallInt>.0` and `node<Int>.0` are different values)"""
    out = []
    for p in place[1]:
        if not isinstance(p, list):
            continue
        if p[0] == "f":
            out.append(p[2] if len(p) > 2 else str(p[1]))
        elif p[0] == "v" and p[1] not in PLAIN_VARIANTS:
            out.append(f"<{p[1]}>")
    return out


def place_const_index(place):
    for p in place[1]:
        if isinstance(p, list) and p[0] == "ci":
            return p[1]
    return None


def _pty(place):
    return place[2] if len(place) > 2 and isinstance(place[2], int) else None


class Sym:
    """expression trees over named size leaves for the operands of one function"""

    def __init__(self, cx, fn, inline_depth=0):
        self.cx = cx
        self.fn = fn
        self.du = cx.du(fn)
        self.inline_depth = inline_depth

    def ty(self, local):
        return self.fn.local_tstr(local)

    # ---- names --------------------------------------------------------------------------------
    def canon(self, local, fields=(), depth=0):
        """a line-independent name for the collection / value a place denotes"""
        fn, du = self.fn, self.du
        fields = list(fields)
        for _ in range(16):
            n = fn.local_name(local)
            if n is not None and not (n == "iter" and du.single_def(local) is not None):   # `iter`: for-loop desugaring
                return ".".join([n] + fields)
            if 1 <= local <= fn.argc:
                return ".".join([f"arg{local}"] + fields)
            d = du.single_def(local)
            if d is None:
                return ".".join([f"t{len(du.full_defs(local))}"] + fields)
            if d[2] == "call":
                c = d[3]
                last = (c.pretty or c.short or "").rsplit("::", 1)[-1]
                if (c.is_(*TRANSPARENT) or last in ITER_SRC) and c.args and op_place(c.args[0]) is not None:
                    p = op_place(c.args[0])
                    fields = place_fields(p) + fields
                    local = p[0]
                    continue
                base = (c.short or c.pretty or "?").rsplit("::", 1)[-1]
                arg = ""
                if c.args and op_place(c.args[0]) is not None and depth < 3:
                    p = op_place(c.args[0])
                    arg = self.canon(p[0], place_fields(p), depth + 1)
                return ".".join([f"{base}({arg})"] + fields)
            rv = d[3]
            if rv[0] in ("use", "cast"):
                o = rv[1] if rv[0] == "use" else rv[2]
                p = op_place(o)
                if p is None:
                    return "const"
                fields = place_fields(p) + fields
                local = p[0]
                continue
            if rv[0] in ("ref", "rawptr"):
                p = rv[2]
                fields = place_fields(p) + fields
                local = p[0]
                continue
            return ".".join([rv[0]] + fields)
        return "?"

    # ---- expression trees ---------------------------------------------------------------------
    def expr(self, op, depth=0, seen=frozenset()):
        if op[0] == "k":
            v = op_int(op)
            return ("K", v) if v is not None else ("?", "const")
        p = op_place(op)
        if p is None:
            return ("?", "operand")
        return self.place_expr(p[0], tuple(place_fields(p)), depth, seen, place_const_index(p), _pty(p))

    def place_expr(self, local, fields, depth, seen, cidx=None, pty=None):
        """pty: type id of the value read (the type of `local.fields`), when known"""
        fn, du = self.fn, self.du
        t = self.ty(local) if not fields else (fn.crate.tstr(pty) if pty is not None else None)
        if depth > 28 or (local, fields) in seen:
            return ("L", self.canon(local, fields), t)
        seen = seen | {(local, fields)}
        if 1 <= local <= fn.argc:
            return ("L", self.canon(local, fields), t)
        ds = du.full_defs(local)
        if not ds:
            return ("L", self.canon(local, fields), t)
        if len(ds) > 1:
            return ("phi", self.canon(local, fields), t,
                    tuple(self._def_expr(d, local, fields, depth, seen, cidx, pty) for d in ds),
                    tuple(d[0] for d in ds))
        return self._def_expr(ds[0], local, fields, depth, seen, cidx, pty)

    def _def_expr(self, d, local, fields, depth, seen, cidx=None, pty=None):
        fn = self.fn
        t = self.ty(local) if not fields else (fn.crate.tstr(pty) if pty is not None else None)
        if d[2] == "call":
            c = d[3]
            last = (c.pretty or c.short or "").rsplit("::", 1)[-1]
            a0 = op_place(c.args[0]) if c.args else None
            if last == "len" and a0 is not None and not fields:
                return ("L", f"len({self.canon(a0[0], place_fields(a0))})", "usize")
            if c.is_("Iterator::count") and a0 is not None:
                return ("L", f"count({self.canon(a0[0], place_fields(a0))})", "usize")
            if c.is_("Iterator::next") and a0 is not None:
                rng = self._range_of(a0[0])
                if rng is not None and list(fields) == ["0"]:
                    return ("lt", self.expr(rng, depth + 1, seen))          # a value of `start..end`: < end
                src = self.canon(a0[0], place_fields(a0))
                if self._has_enumerate(a0[0]) and list(fields[:2]) == ["0", "0"]:
                    return ("L", f"idx({src})", "usize")
                return ("L", f"item({src})" + "".join("." + f for f in fields), None)
            if c.is_("Iterator::position", "Iterator::rposition") and a0 is not None:
                return ("L", f"idx({self.canon(a0[0], place_fields(a0))})", "usize")
            if last in ("try_from", "try_into"):
                return ("T", "try_from", tuple(fields), self.expr(c.args[0], depth + 1, seen) if c.args else ("?", "arg"))
            if last == "min" and len(c.args) >= 2:
                return ("min", self.expr(c.args[0], depth + 1, seen), self.expr(c.args[1], depth + 1, seen))
            if last == "max" and len(c.args) >= 2:
                return ("max", self.expr(c.args[0], depth + 1, seen), self.expr(c.args[1], depth + 1, seen))
            if last == "clamp" and len(c.args) >= 3:
                return ("clamp", self.expr(c.args[0], depth + 1, seen), self.expr(c.args[1], depth + 1, seen),
                        self.expr(c.args[2], depth + 1, seen))
            if last == "unwrap_or" and len(c.args) >= 2 and a0 is not None:
                return ("phi", self.canon(local, fields), t,
                        (self.place_expr(a0[0], tuple(place_fields(a0)) + ("0",) + tuple(fields), depth + 1, seen),
                         self.expr(c.args[1], depth + 1, seen)), (c.bb, c.bb))
            if last in ("unsigned_abs", "abs") and a0 is not None:
                return ("neg", self.expr(c.args[0], depth + 1, seen))
            if c.is_(*TRANSPARENT) and a0 is not None:
                return self.place_expr(a0[0], tuple(place_fields(a0)) + tuple(fields), depth + 1, seen, None,
                                       pty if fields else None)
            inl = self._inline(c, fields)
            if inl is not None:
                return inl
            return ("L", self.canon(local, fields), t)
        rv = d[3]
        k = rv[0]
        if k == "use":
            return self._proj(rv[1], fields, depth, seen, pty)
        if k == "cast":
            if rv[1] == "IntToInt" and not fields:
                return ("cast", self._proj(rv[2], fields, depth, seen), fn.crate.tstr(rv[3]), fn.crate.tstr(rv[4]))
            return self._proj(rv[2], fields, depth, seen, pty)
        if k in ("ref", "rawptr"):
            p = rv[2]
            return self.place_expr(p[0], tuple(place_fields(p)) + tuple(fields), depth + 1, seen, place_const_index(p),
                                   pty if fields else None)
        if k == "bin":
            opn = rv[1].replace("WithOverflow", "").replace("Unchecked", "")
            a, b = rv[2], rv[3]
            if fields and list(fields) != ["0"]:
                return ("B", 1)                                              # the overflow flag
            if opn in ("BitAnd",) and (op_int(a) is not None or op_int(b) is not None):
                return ("B", op_int(a) if op_int(a) is not None else op_int(b))
            if opn == "Rem" and op_int(b) is not None:
                return ("B", abs(op_int(b)) - 1)
            if opn in ("Shr",):
                return self.expr(a, depth + 1, seen)
            if opn in arith.CMP:
                return ("B", 1)
            ea, eb = self.expr(a, depth + 1, seen), self.expr(b, depth + 1, seen)
            if opn == "Add":
                return ("add", ea, eb)
            if opn == "Sub":
                return ("sub", ea, eb)
            if opn == "Mul":
                return ("mul", ea, eb)
            return ("?", opn)
        if k == "un":
            if rv[1] == "Neg":
                return ("neg", self.expr(rv[2], depth + 1, seen))
            return ("?", rv[1])
        if k == "agg":
            if rv[1][0] == "adt" and rv[1][2] == "None" and fields:
                return ("none",)            # the payload of a None: no value flows from here
            idx = cidx
            if idx is None and fields:
                try:
                    idx = int(fields[0])
                    fields = fields[1:]
                except ValueError:
                    idx = None
            if idx is not None and idx < len(rv[2]):
                return self._proj(rv[2][idx], fields, depth, seen, pty)
        return ("L", self.canon(local, fields), t)

    def _inline(self, c, fields):
        """the result of a small workspace helper in terms of the caller's names (one level)"""
        tf = self.cx.F.fns.get(c.resolved)
        if tf is None or self.inline_depth >= 1 or tf.crate.uname != self.fn.crate.uname or len(tf.blocks) > 40 \
                or tf.kind == "Closure" or tf.name == self.fn.name:
            return None
        rt = tf.local_tstr(0)
        import re as _re
        if not _re.match(r"^(std::result::Result<|core::result::Result<|Result<)?\(?(usize|u8|u16|u32|i8|i16|i32|i64)\b", rt) \
                and not _re.match(r"^\((\w|:)+, (usize|u8|u16|u32)\)$", rt):
            return None
        sub = Sym(self.cx, tf, self.inline_depth + 1)
        e = sub.place_expr(0, tuple(fields), 0, frozenset())
        mapping = {}
        for i in range(1, tf.argc + 1):
            pn = tf.local_name(i) or f"arg{i}"
            if i - 1 < len(c.args) and op_place(c.args[i - 1]) is not None:
                a = op_place(c.args[i - 1])
                mapping[pn] = self.canon(a[0], place_fields(a))
        prefix = (tf.qual or tf.name).rsplit("::", 1)[-1]
        return _rename(e, mapping, prefix)

    def _proj(self, op, fields, depth, seen, pty=None):
        if op[0] == "k":
            v = op_int(op)
            return ("K", v) if v is not None else ("?", "const")
        p = op_place(op)
        return self.place_expr(p[0], tuple(place_fields(p)) + tuple(fields), depth + 1, seen, place_const_index(p),
                               pty if fields else _pty(p))

    def _chain(self, local, hops=0):
        """definitions along the receiver chain of an iterator local"""
        du = self.du
        while local is not None and hops < 14:
            hops += 1
            ds = du.full_defs(local)
            if len(ds) != 1:
                return
            d = ds[0]
            yield d
            if d[2] == "call":
                c = d[3]
                if c.args and op_place(c.args[0]) is not None:
                    local = op_base(c.args[0])
                    continue
                return
            rv = d[3]
            if rv[0] in ("use", "cast"):
                local = op_base(rv[1] if rv[0] == "use" else rv[2])
            elif rv[0] in ("ref", "rawptr"):
                local = rv[2][0]
            else:
                return

    def _has_enumerate(self, local):
        return any(d[2] == "call" and d[3].is_("Iterator::enumerate") for d in self._chain(local))

    def _range_of(self, local):
        """the `end` operand when the iterator is a `start..end` range literal"""
        for d in self._chain(local):
            if d[2] == "assign" and d[3][0] == "agg" and d[3][1][0] == "adt" and \
                    self.fn.crate.defs[d[3][1][1]].endswith("ops::range::Range") and len(d[3][2]) == 2:
                return d[3][2][1]
        return None


def _rename(e, mapping, prefix):
    import re as _re
    if e[0] in ("L", "phi"):
        name = e[1]
        hit = False
        for pn, cn in mapping.items():
            name, k = _re.subn(r"(?<![\w.>])" + _re.escape(pn) + r"(?![\w])", lambda m: cn, name)
            hit = hit or k > 0
        if not hit:
            name = prefix + "::" + name
        if e[0] == "L":
            return ("L", name, e[2])
        return ("phi", name, e[2], tuple(_rename(x, mapping, prefix) for x in e[3]), tuple(-1 for _ in e[4]))
    return tuple(_rename(x, mapping, prefix) if isinstance(x, tuple) and x and isinstance(x[0], str) and x[0] in TAGS
                 else x for x in e)


def _sub(e):
    """sub-expressions of a node"""
    if e[0] == "phi":
        return list(e[3])
    return [x for x in e[1:] if isinstance(x, tuple) and x and isinstance(x[0], str) and x[0] in TAGS]


TAGS = {"K", "L", "B", "T", "lt", "cast", "add", "sub", "neg", "mul", "min", "max", "clamp", "phi", "none", "?"}


def leaves_of(e, out=None):
    out = set() if out is None else out
    if e[0] == "L":
        out.add(e[1])
    else:
        for x in _sub(e):
            leaves_of(x, out)
    return out


def strip_phi(e):
    """structural key of an expression (for same-expression guards)"""
    if e[0] == "phi":
        return ("phi", e[1])
    return tuple(strip_phi(x) if isinstance(x, tuple) and x and isinstance(x[0], str) and x[0] in TAGS else x for x in e)


def _phi_names(e, out=None):
    out = set() if out is None else out
    if e[0] == "phi":
        out.add(e[1])
        return out
    for x in _sub(e):
        _phi_names(x, out)
    return out


def nonneg(e):
    tag = e[0]
    if tag == "K":
        return e[1] >= 0
    if tag in ("B", "T", "lt"):
        return True
    if tag == "L":
        return e[2] in UNSIGNED or e[1].startswith(("len(", "idx(", "count("))
    if tag == "cast":
        return e[2] in UNSIGNED or nonneg(e[1])
    if tag in ("add", "mul", "min", "max"):
        return nonneg(e[1]) and nonneg(e[2])
    if tag == "phi":
        return e[2] in UNSIGNED or all(nonneg(x) for x in e[3])
    return False


def sum_leaves(e):
    """leaves of a pure sum of leaves (idx(X) counted as len(X)), else None"""
    if e[0] == "L":
        n = e[1]
        return {("len(" + n[4:]) if n.startswith("idx(") else n}
    if e[0] == "cast":
        return sum_leaves(e[1])
    if e[0] == "add":
        a, b = sum_leaves(e[1]), sum_leaves(e[2])
        return None if a is None or b is None else a | b
    if e[0] == "K" and e[1] == 0:
        return set()
    return None


class Bounds:
    """upper bounds on |value| of expression trees at one program point"""

    def __init__(self, leaf_ub, expr_ub, sums, nonzero=(), loop_blocks=frozenset()):
        self.leaf_ub = leaf_ub       # leaf name -> bound
        self.expr_ub = expr_ub       # structural key -> bound
        self.sums = sums             # [(frozenset(leaves), bound)]: the sum of these leaves is bounded
        self.nonzero = set(nonzero)
        self.loop_blocks = loop_blocks
        self.missing = set()

    def leaf(self, name, ty):
        b = self.leaf_ub.get(name, INF)
        for suf, sb in getattr(self, "suffix_ub", {}).items():
            if name.endswith(suf):
                b = min(b, sb)
        if name.startswith("idx(") and name.endswith(")"):
            lb = self.leaf_ub.get("len(" + name[4:-1] + ")", INF)
            if lb != INF:
                b = min(b, max(lb - 1, 0))
        if ty in TMAX:
            b = min(b, TMAX[ty])
        if b == INF:
            self.missing.add(name)
        return b

    def mag(self, e):
        direct = self.expr_ub.get(strip_phi(e), INF)
        tag = e[0]
        if tag == "K":
            r = abs(e[1])
        elif tag == "none":
            r = 0
        elif tag == "B":
            r = e[1]
        elif tag == "T":
            r = 255
        elif tag == "L":
            r = self.leaf(e[1], e[2])
        elif tag == "lt":
            r = max(self.mag(e[1]) - 1, 0)
        elif tag == "cast":
            r = min(self.mag(e[1]), TMAX.get(e[2], INF), TMAX.get(e[3], INF))
        elif tag == "add":
            r = self.mag(e[1]) + self.mag(e[2])
            ls = sum_leaves(e)
            if ls is not None:
                for s, b in self.sums:
                    if ls <= s:
                        # idx leaves are at most len - 1 each
                        r = min(r, b)
        elif tag == "sub":
            r = max(self.mag(e[1]), self.mag(e[2])) if nonneg(e[1]) and nonneg(e[2]) else self.mag(e[1]) + self.mag(e[2])
        elif tag == "neg":
            r = self.mag(e[1])
        elif tag == "mul":
            r = self.mag(e[1]) * self.mag(e[2])
        elif tag == "min":
            r = min(self.mag(e[1]), self.mag(e[2])) if nonneg(e[1]) and nonneg(e[2]) else INF
        elif tag == "max":
            r = max(self.mag(e[1]), self.mag(e[2]))
        elif tag == "clamp":
            r = max(self.mag(e[2]), self.mag(e[3]))
        elif tag == "phi":
            # a mutable / branch-assigned local: the largest of its definitions; a definition that mentions the local
            # itself (x += k outside a loop) is evaluated once over the other definitions
            name = e[1]
            refs = [name in (_phi_names(x) | leaves_of(x)) for x in e[3]]
            plain = [x for x, sr in zip(e[3], refs) if not sr]
            r = max([self.mag(x) for x in plain], default=INF)
            for x, sr, db in zip(e[3], refs, e[4]):
                if not sr:
                    continue
                if db in self.loop_blocks or db < 0:
                    self.missing.add(name + " (updated in a loop)")
                    r = INF
                    continue
                inner = Bounds({**self.leaf_ub, name: r}, {**self.expr_ub, ("phi", name): r}, self.sums, self.nonzero,
                               self.loop_blocks)
                inner.suffix_ub = getattr(self, "suffix_ub", {})
                r = max(r, inner.mag(x))
                self.missing |= inner.missing
            if e[2] in TMAX:
                r = min(r, TMAX[e[2]])
        else:
            self.missing.add("?" + str(e[1:2]))
            r = INF
        return min(r, direct)


# ---------------------------------------------------------------------------------------------
# sites and guards

def sites(fn):
    """(kind, bb, operand list, dst type, src type, loc, condition local)"""
    out = []
    for b in fn.blocks:
        if b.cleanup:
            continue
        for st in b.stmts:
            if st[0] != "a":
                continue
            rv = st[2]
            if rv[0] == "cast" and rv[1] == "IntToInt" and rv[2][0] != "k":
                dt = fn.crate.tstr(rv[3])
                stt = fn.crate.tstr(rv[4])
                if dt in NARROW and WIDTH.get(stt, 0) > NARROW[dt]:
                    out.append(("cast", b.idx, [rv[2]], dt, stt, st[3] if len(st) > 3 else None, None))
    for bb, t in arith._asserts(fn):
        if not t[1].startswith("Overflow"):
            continue
        tys = [arith._opty(fn, o) for o in t[5]]
        if any(x in ("u8", "i8") for x in tys):
            out.append((t[1].replace("Overflow:", "").replace("Overflow", ""), bb, list(t[5]),
                        next(x for x in tys if x in ("u8", "i8")), None, t[6], op_base(t[2])))
    return out


def guards(cx, fn, sym):
    """[(bb, dest local, opname, lhs expr, rhs expr)] for every integer comparison"""
    out = []
    for b in fn.blocks:
        if b.cleanup:
            continue
        for st in b.stmts:
            if st[0] == "a" and st[2][0] == "bin" and st[2][1] in arith.CMP and not st[1][1]:
                ty = next((arith._opty(fn, o) for o in (st[2][2], st[2][3]) if o[0] != "k"), None)
                out.append((b.idx, st[1][0], st[2][1], sym.expr(st[2][2]), sym.expr(st[2][3]), ty))
    du = cx.du(fn)
    for c in fn.calls():
        # u8::try_from(x).is_ok()  ==  0 <= x <= 255
        if (c.pretty or c.short or "").rsplit("::", 1)[-1] == "is_ok" and c.args and not c.dest[1]:
            rr = du.root(op_base(c.args[0]))
            if rr[0] == "call" and (rr[1].pretty or rr[1].short or "").endswith("try_from") and rr[1].args and \
                    "Result<u8" in fn.local_tstr(rr[1].dest[0]):
                out.append((c.bb, c.dest[0], "Le", sym.expr(rr[1].args[0]), ("K", 255), "usize"))
    for c in fn.calls():
        if c.is_("PartialOrd::lt", "PartialOrd::le", "PartialOrd::gt", "PartialOrd::ge") and len(c.args) >= 2 \
                and not c.dest[1]:
            ty = next((arith._opty(fn, o) for o in c.args[:2] if o[0] != "k"), None)
            out.append((c.bb, c.dest[0], c.short.rsplit("::", 1)[-1].capitalize(), sym.expr(c.args[0]),
                        sym.expr(c.args[1]), (ty or "").lstrip("&")))
    return out


def _switch_outcomes(cx, fn, b):
    """for a switch block on a bool: [(tested local, true targets, false targets)] for every local along the copy / Not
    chain of the switch operand"""
    du = cx.du(fn)
    if b.cleanup or b.term[0] != "switch":
        return None
    l = op_base(b.term[1])
    neg = False
    chain = []
    for _ in range(5):
        if l is None:
            break
        chain.append((l, neg))
        d = du.single_def(l)
        if d is None or d[2] != "assign":
            break
        rv = d[3]
        if rv[0] == "un" and rv[1] == "Not":
            neg = not neg
            l = op_base(rv[2])
        elif rv[0] == "use" and op_place(rv[1]) is not None and not op_place(rv[1])[1]:
            l = op_base(rv[1])
        else:
            break
    t = b.term
    listed = {v for v, _ in t[2]}
    if not listed <= {0, 1}:
        return None
    out = []
    for (l, neg) in chain:
        true_e, false_e = set(), set()
        for v, tb in t[2]:
            (false_e if (v == 0) != neg else true_e).add(tb)
        if listed == {0}:
            (true_e if not neg else false_e).add(t[3])
        elif listed == {1}:
            (false_e if not neg else true_e).add(t[3])
        out.append((l, true_e, false_e))
    return out


def edge_side(cx, fn, cfg, cmp_bb, cmp_dest, site_bb):
    """'true' / 'false' / None: on which outcome of the comparison the site lies (dominated by that edge's target,
    which only that edge enters)"""
    for b in fn.blocks:
        so = _switch_outcomes(cx, fn, b)
        if not so:
            continue
        for (l, true_e, false_e) in so:
            if l != cmp_dest:
                continue

            def dom(es):
                return any((e == site_bb or cfg.dominates(e, site_bb)) and set(cfg.pred[e]) <= {b.idx} for e in es)
            on_t, on_f = dom(true_e), dom(false_e)
            if on_t != on_f:
                return "true" if on_t else "false"
    return None


class PrunedCfg:
    """the CFG without the edges that contradict what is known at a site: when the site lies on one outcome of a test
    of an immutable bool, every other test of the same bool takes the same outcome on all paths to the site"""

    def __init__(self, base, removed):
        self.fn = base.fn
        self.n = base.n
        self.succ = [[t for t in ss if (i, t) not in removed] for i, ss in enumerate(base.succ)]
        self.pred = [[] for _ in range(self.n)]
        for i, ss in enumerate(self.succ):
            for t in ss:
                self.pred[t].append(i)
        seen = set()
        work = [0]
        while work:
            b = work.pop()
            if b in seen:
                continue
            seen.add(b)
            work.extend(self.succ[b])
        self.reach = seen
        self._dom = _dominators(self.n, self.succ, self.pred, 0, self.reach)

    def dominates(self, a, b):
        return b in self._dom and a in self._dom[b]


def assume_at(cx, fn, cfg, site_bb):
    """edges removable at the site (see PrunedCfg)"""
    du = cx.du(fn)
    tests = {}
    for b in fn.blocks:
        so = _switch_outcomes(cx, fn, b)
        if not so:
            continue
        for (l, true_e, false_e) in so:
            tests.setdefault(l, []).append((b.idx, true_e, false_e))
    removed = set()
    for l, ts in tests.items():
        if len(ts) < 2 or fn.local_tstr(l) != "bool":
            continue
        # stable: no definition of the bool is reachable from one of its tests
        def_bbs = {d[0] for d in du.defs.get(l, [])}
        if any(def_bbs & cfg.reachable_after(tb) for tb, _, _ in ts):
            continue
        known = None
        for tb, true_e, false_e in ts:
            def dom(es):
                return any((e == site_bb or cfg.dominates(e, site_bb)) and set(cfg.pred[e]) <= {tb} for e in es)
            on_t, on_f = dom(true_e), dom(false_e)
            if on_t != on_f:
                known = on_t
        if known is None:
            continue
        for tb, true_e, false_e in ts:
            for e in (false_e if known else true_e):
                if e not in (true_e if known else false_e):
                    removed.add((tb, e))
    return removed


def upper_from_guard(opn, side, const, key_is_lhs):
    """largest value of the key expression on the given side of `key <op> const` (or mirrored); None = no upper bound"""
    op = opn.lower()
    if not key_is_lhs:
        op = {"lt": "gt", "le": "ge", "gt": "lt", "ge": "le"}.get(op, op)
    if op == "gt":
        return const if side == "false" else None
    if op == "ge":
        return const - 1 if side == "false" else None
    if op == "lt":
        return const - 1 if side == "true" else None
    if op == "le":
        return const if side == "true" else None
    if op == "eq":
        return const if side == "true" else None
    if op == "ne":
        return const if side == "false" else None
    return None


def lower_nonzero(opn, side, const, key_is_lhs):
    """does the guard establish key >= 1 on this side"""
    op = opn.lower()
    if not key_is_lhs:
        op = {"lt": "gt", "le": "ge", "gt": "lt", "ge": "le"}.get(op, op)
    return (op == "eq" and const == 0 and side == "false") or (op == "ne" and const == 0 and side == "true") or \
           (op == "gt" and const >= 0 and side == "true") or (op == "ge" and const >= 1 and side == "true") or \
           (op == "lt" and const <= 1 and side == "false") or (op == "le" and const <= 0 and side == "false")


def lower_nonneg(opn, side, const, key_is_lhs):
    """does the guard establish key >= 0 on this side"""
    op = opn.lower()
    if not key_is_lhs:
        op = {"lt": "gt", "le": "ge", "gt": "lt", "ge": "le"}.get(op, op)
    return (op == "ge" and const >= 0 and side == "true") or (op == "gt" and const >= -1 and side == "true") or \
           (op == "lt" and const <= 0 and side == "false") or (op == "le" and const <= -1 and side == "false") or \
           (op == "eq" and const >= 0 and side == "true")


def _const_bound(e):
    """the value of a constant comparison operand; a u8-typed operand counts as 255 (its largest value)"""
    x = e
    while x[0] == "cast":
        if x[3] == "u8" and x[1][0] != "K":
            return 255
        x = x[1]
    if x[0] == "K":
        return x[1]
    if x[0] == "add":
        a, b = _const_bound(x[1]), _const_bound(x[2])
        return None if a is None or b is None else a + b
    if x[0] in ("L", "phi") and x[2] == "u8":
        return 255
    return None


class FnBounds:
    """guard-derived bounds for the sites of one function"""

    def __init__(self, cx, fn, extra_leaf_ub=None):
        self.cx, self.fn = cx, fn
        self.sym = Sym(cx, fn)
        self.cfg = cx.cfg(fn)
        self.gs = guards(cx, fn, self.sym)
        self.extra = dict(extra_leaf_ub or {})
        self.reg_backed = self._register_backed()
        self.loop_blocks = frozenset(b for (t, h) in self.cfg.back_edges() for b in self.cfg.natural_loop(t, h))
        self._cache = {}

    def _register_backed(self):
        """collections X with a loop over X in which every iteration passes push_register()?: name -> {loop head}"""
        fn, cfg, sym = self.fn, self.cfg, self.sym
        out = {}
        push_bbs = {c.bb for c in fn.calls() if c.short in (COMP + "push_register", FRAME + "push_register")}
        if not push_bbs:
            return out
        allb = set(range(len(fn.blocks)))
        for (tail, head) in cfg.back_edges():
            loop = cfg.natural_loop(tail, head)
            nxt = [c for c in fn.calls() if c.bb in loop and c.is_("Iterator::next") and c.args
                   and cfg.dominates(c.bb, tail)]
            if not nxt:
                continue
            # every cycle from the head back to the head passes a push
            p = cfg.find_path(head, lambda b: b == head, avoid=push_bbs | (allb - set(loop)))
            if p is not None:
                continue
            for c in nxt:
                a0 = op_place(c.args[0])
                if a0 is None:
                    continue
                out.setdefault(sym.canon(a0[0], place_fields(a0)), set()).add(head)
        return out

    def at(self, site_bb, cond_local=None):
        key = (site_bb, cond_local)
        if key in self._cache:
            return self._cache[key]
        leaf_ub = dict(self.extra)
        expr_ub = {}
        sums = []
        nonzero = set()
        nonneg_keys = set()
        removed = assume_at(self.cx, self.fn, self.cfg, site_bb)
        cfg = PrunedCfg(self.cfg, removed) if removed else self.cfg
        # values that another dominating guard shows to be non-negative (`if b < 0 {..} else if b <= MAX {site}`)
        nonneg_all = set()
        for (gb, dest, opn, le, re_, cty) in self.gs:
            if (dest is not None and dest == cond_local and gb == site_bb) or \
                    not (gb == site_bb or cfg.dominates(gb, site_bb)):
                continue
            side = edge_side(self.cx, self.fn, cfg, gb, dest, site_bb)
            if side is None:
                continue
            for k_e, other, is_lhs in ((le, re_, True), (re_, le, False)):
                c = _const_bound(other)
                if c is not None and lower_nonneg(opn, side, c, is_lhs):
                    nonneg_all.add(strip_phi(k_e))
        for (gb, dest, opn, le, re_, cty) in self.gs:
            if dest is not None and dest == cond_local and gb == site_bb:
                continue
            if not (gb == site_bb or cfg.dominates(gb, site_bb)):
                continue
            side = edge_side(self.cx, self.fn, cfg, gb, dest, site_bb)
            if side is None:
                continue
            for k_e, other, is_lhs in ((le, re_, True), (re_, le, False)):
                c = _const_bound(other)
                if c is None:
                    continue
                if lower_nonzero(opn, side, c, is_lhs):
                    nonzero.add(k_e[1] if k_e[0] == "L" else strip_phi(k_e))
                if lower_nonneg(opn, side, c, is_lhs):
                    nonneg_keys.add(strip_phi(k_e))
                ub = upper_from_guard(opn, side, c, is_lhs)
                if ub is None or (cty not in UNSIGNED and not nonneg(k_e) and strip_phi(k_e) not in nonneg_all):
                    continue      # an upper bound of a signed value says nothing about its magnitude
                k = strip_phi(k_e)
                expr_ub[k] = min(expr_ub.get(k, INF), ub)
                if k_e[0] == "L":
                    leaf_ub[k_e[1]] = min(leaf_ub.get(k_e[1], INF), ub)
                else:
                    ls = sum_leaves(k_e)
                    if ls:
                        sums.append((frozenset(ls), ub))
                        for n in ls:
                            leaf_ub[n] = min(leaf_ub.get(n, INF), ub)
        for name, heads in self.reg_backed.items():
            if any(h == site_bb or cfg.dominates(h, site_bb) for h in heads):
                for n in ("len(" + name + ")", "idx(" + name + ")"):
                    leaf_ub[n] = min(leaf_ub.get(n, INF), REG_FILE)
        for c in self.fn.calls():
            if (c.pretty or c.short or "").rsplit("::", 1)[-1] == "is_empty" and c.args and not c.dest[1] \
                    and (c.bb == site_bb or cfg.dominates(c.bb, site_bb)):
                if edge_side(self.cx, self.fn, cfg, c.bb, c.dest[0], site_bb) == "false":
                    a0 = op_place(c.args[0])
                    if a0 is not None:
                        nonzero.add("len(" + self.sym.canon(a0[0], place_fields(a0)) + ")")
        b = Bounds(leaf_ub, expr_ub, sums, nonzero, self.loop_blocks)
        b.nonneg_keys = nonneg_keys
        b.suffix_ub = getattr(self, "suffix_ub", {})
        self._cache[key] = b
        return b


# ---------------------------------------------------------------------------------------------
# reviewed tables

# callee parameter leaves whose bound is established by the callers: (callee, leaf) -> (bound, {caller: how}, why)
#   how = ("guard", leaf-in-caller)     a dominating comparison of that leaf in the caller, before the call
#         ("try_from", leaf-in-caller)  a dominating u8::try_from of that leaf in the caller
#         ("empty",)                    the caller passes an empty slice literal
BOUNDED_BY_CALLER = [
    dict(callee=COMP + "compile_unpack_nested_args_of_tuple", param=3, field=None, bound=127,
         callers={COMP + "compile_arg": "guard"},
         why="the nested arg list is compared with i8::MAX in compile_arg before the size check is emitted"),
    dict(callee=COMP + "compile_frame", param=2, field="args", bound=255,
         callers={COMP + "compile_function": "try_from", COMP + "compile_node": "empty"},
         why="compile_function converts args.len() with u8::try_from; the main block has no args"),
]

# sites that are safe for a reviewed reason that is not a bound on the value: (fn, slot) -> reason
REVIEWED = {
    (COMP + "compile_node", "cast:node.node.<MainBlock>.local_count"):
        "a truncated local count is smaller than the true one (>= 256), so the frame's locals no longer fit under "
        "temporary_base and assign_local_register / reserve_local_register fail with LocalRegisterOverflow; "
        "Frame::new itself checks the sum (clause frame-allocator)",
}

# AST fields whose range is established where the parser builds the node: (variant, field index) -> bound.
# Every construction site of the variant in the workspace is checked against the bound on every run.
PRODUCER_BOUNDED = {
    ("SmallInt", 0): 255,
}


def _producer_bounds(cx, r):
    """{leaf suffix: bound} for PRODUCER_BOUNDED entries whose every construction site respects the bound"""
    F = cx.F
    out = {}
    for (variant, idx), bound in PRODUCER_BOUNDED.items():
        n = 0
        good = True
        for fn in F.fns.values():
            if fn.derived or fn.crate.uname not in ("koto_parser", "koto_bytecode", "koto_format", "koto_lexer"):
                continue
            fb = None
            for b in fn.blocks:
                if b.cleanup:
                    continue
                for st in b.stmts:
                    if st[0] == "a" and st[2][0] == "agg" and st[2][1][0] == "adt" and st[2][1][2] == variant and \
                            fn.crate.defs[st[2][1][1]].endswith("::Node") and idx < len(st[2][2]):
                        n += 1
                        r.instances += 1
                        r.nontrivial += 1
                        fb = fb or FnBounds(cx, fn)
                        e = fb.sym.expr(st[2][2][idx])
                        bnd = fb.at(b.idx)
                        bnd.missing = set()
                        m = bnd.mag(e)
                        r.sample({"fn": fn.qual, "builds": f"Node::{variant}", "field": _short(e), "bound": m})
                        if m > bound:
                            good = False
                            r.add(Finding("R-NARROW", fn.qual, f"producer:{variant}.{idx}",
                                          f"Node::{variant} is built from a value that is not bounded by {bound} "
                                          f"({'no bound for ' + ', '.join(sorted(bnd.missing)) if bnd.missing else m}); "
                                          f"the compiler narrows this field to a byte", fn.file,
                                          loc_line(st[3]) if len(st) > 3 else fn.line))
        require(n >= 1, f"R-NARROW: no construction site of Node::{variant} found")
        if good:
            out[f"<{variant}>.{idx}"] = bound
    return out


def rule_narrow(cx, tier):
    r = RuleResult("R-NARROW", "program-size quantities (lengths and indices of AST vectors, local / capture / argument "
                               "counts) are bounded by a comparison -- on the error side of which compilation is refused -- "
                               "before they are narrowed to a byte, added in byte arithmetic, or emitted where the "
                               "instruction reader decodes a signed byte")
    F = cx.F
    fns = [fn for fn in F.fns.values() if fn.crate.uname == CRATE and not fn.derived]
    n_sites = 0
    n_fn = 0
    per_kind = {}
    alloc_ok = _frame_allocator(cx, r)
    caller_bounds = _caller_bounds(cx, r)
    producer = _producer_bounds(cx, r)
    used_reviews = set()
    for fn in fns:
        ss = sites(fn)
        if not ss:
            continue
        n_fn += 1
        fb = FnBounds(cx, fn, _extras(cx, fn, caller_bounds, alloc_ok))
        fb.suffix_ub = producer
        sym = fb.sym
        label = fn.qual
        for kind, bb, ops, dt, stt, loc, cond in ss:
            n_sites += 1
            per_kind[kind] = per_kind.get(kind, 0) + 1
            r.instances += 1
            exprs = [sym.expr(o) for o in ops]
            slot = f"{kind}:" + ",".join(_short(e) for e in exprs)
            line = loc_line(loc)
            if all(e[0] in ("K", "B") for e in exprs):
                continue
            r.nontrivial += 1
            bnd = fb.at(bb, cond)
            verdict, why = _decide(kind, dt, exprs, bnd, alloc_ok)
            if verdict != "ok" and (fn.qual, slot) in REVIEWED:
                used_reviews.add((fn.qual, slot))
                verdict, why = "ok", "reviewed: " + REVIEWED[(fn.qual, slot)][:70] + ".."
            r.sample({"fn": label, "line": line, "site": slot, "to": dt, "verdict": verdict, "why": why}, limit=80)
            if verdict == "ok":
                continue
            r.add(Finding("R-NARROW", label, slot, f"{_describe(kind, dt, stt)} without a bound: {why}", fn.file, line,
                          [f"{fn.file}:{line} operands {[_short(e) for e in exprs]}"]))
    # ---- slice::chunks(n) panics on n == 0
    n_chunks = 0
    for fn in fns:
        fb = None
        for c in fn.calls():
            if (c.pretty or c.short or "").rsplit("::", 1)[-1] not in ("chunks", "chunks_exact", "chunks_mut", "windows",
                                                                         "step_by") or len(c.args) < 2:
                continue
            n_chunks += 1
            r.instances += 1
            r.nontrivial += 1
            fb = fb or FnBounds(cx, fn, _extras(cx, fn, caller_bounds, alloc_ok))
            e = fb.sym.expr(c.args[1])
            bnd = fb.at(c.bb)
            ok = (e[0] == "K" and e[1] > 0) or (e[0] == "L" and e[1] in bnd.nonzero) or strip_phi(e) in bnd.nonzero
            r.sample({"fn": fn.qual, "line": c.line, "chunk_size": _short(e), "tested_non_zero": ok})
            if not ok:
                r.add(Finding("R-NARROW", fn.qual, f"chunks:{_short(e)}",
                              f"`{(c.pretty or c.short).rsplit('::', 1)[-1]}` panics when its size argument is zero, and "
                              f"{_short(e)} is not tested for zero on the way here", fn.file, c.line))
    n_signed = _signed_operands(cx, r, caller_bounds)
    r.analysed = {"chunk_size_sites": n_chunks, "functions_with_sites": n_fn, "sites": n_sites, "by_kind": per_kind, "signed_operand_sites": n_signed,
                  "caller_established_bounds": len(caller_bounds), "reviewed_sites_used": len(used_reviews)}
    r.floor("narrowing casts and byte arithmetic sites in koto_bytecode", n_sites, 30)
    r.floor("writer sites of signed-byte operands", n_signed, 9)
    return r


def _extras(cx, fn, caller_bounds, alloc_ok):
    """leaf bounds that hold on entry of the function"""
    extra = {leaf: b for (callee, leaf), b in caller_bounds.items() if callee == fn.qual}
    if alloc_ok and fn.qual.startswith(FRAME):
        # local_registers grows only behind the `len - 1 < temporary_base` test (or in new, below temporary_base)
        extra["len(self.local_registers)"] = 256
    if fn.kind == "Closure":
        # |x| .. passed to Option::map: x is the payload of the receiver
        parent = cx.F.fns.get(fn.parent)
        if parent is not None:
            for c in parent.calls():
                if fn.name in (c.cl or ()) and c.is_("Option::map") and c.args and fn.argc >= 2:
                    pfb = FnBounds(cx, parent, _extras(cx, parent, caller_bounds, alloc_ok))
                    e = pfb.sym.expr(c.args[0])
                    bnd = pfb.at(c.bb)
                    m = bnd.mag(e)
                    if m != INF:
                        extra[fn.local_name(2) or "arg2"] = m
    return extra


def _short(e):
    tag = e[0]
    if tag == "K":
        return str(e[1])
    if tag in ("L", "phi"):
        return e[1]
    if tag == "B":
        return f"<={e[1]}"
    if tag == "T":
        return "try_from"
    if tag == "cast":
        return _short(e[1])
    if tag == "lt":
        return "range(" + _short(e[1]) + ")"
    if tag in ("add", "sub", "mul", "min", "max"):
        s = {"add": "+", "sub": "-", "mul": "*", "min": "_min_", "max": "_max_"}[tag]
        return f"{_short(e[1])}{s}{_short(e[2])}"
    if tag == "neg":
        return "-(" + _short(e[1]) + ")"
    if tag == "clamp":
        return f"clamp({_short(e[1])},{_short(e[2])},{_short(e[3])})"
    return "?"


def _describe(kind, dt, stt):
    if kind == "cast":
        return f"`as {dt}` of a {stt} value"
    return f"overflow-checked {dt} `{kind}`"


COUNTERS = ("self.temporary_base", "self.temporary_count", "self.temporaries_used_in_frame",
            "next_temporary_register(self)")


def _decide(kind, dt, exprs, bnd, alloc_ok):
    lim = TMAX[dt]
    bnd.missing = set()

    def lack(m, what):
        return f"no upper bound for {', '.join(sorted(bnd.missing))}" if bnd.missing else f"{what} can reach {m} > {lim}"

    if kind == "cast":
        m = bnd.mag(exprs[0])
        return ("ok", f"|value| <= {m}") if m <= lim else ("bad", lack(m, "the value"))
    ls = set()
    for e in exprs:
        leaves_of(e, ls)
    if alloc_ok and ls and all(n in COUNTERS for n in ls):
        return "ok", "register counters: Frame allocator invariant"
    if kind == "Add":
        m = bnd.mag(("add", exprs[0], exprs[1]))
        return ("ok", f"sum <= {m}") if m <= lim else ("bad", lack(m, "the sum"))
    if kind == "Neg":
        m = bnd.mag(exprs[0])
        return ("ok", f"|value| <= {m}") if m <= lim else ("bad", lack(m, "the value"))
    if kind == "Sub":
        a, b = exprs
        if dt == "i8":
            m = bnd.mag(("sub", a, b))
            if (nonneg(a) and nonneg(b) and m <= lim) or bnd.mag(a) + bnd.mag(b) <= lim:
                return "ok", f"|difference| <= {m}"
            return "bad", lack(m, "the difference")
        if a[0] == "K" and a[1] == 255:
            return "ok", "u8::MAX - x"
        x = a
        while x[0] == "cast":
            x = x[1]
        if b[0] == "K" and b[1] <= 1 and x[0] == "L" and x[1] in bnd.nonzero:
            return "ok", f"{x[1]} tested non-zero"
        if b[0] == "K" and b[1] <= 1 and alloc_ok and _at_least_one(x):
            return "ok", "temporary_base >= 1 (Frame::new adds 1 for the self register)"
        return "bad", f"no lower bound for {_short(a)} (underflow when it is smaller than {_short(b)})"
    if kind == "Mul":
        m = bnd.mag(("mul", exprs[0], exprs[1]))
        return ("ok", f"product <= {m}") if m <= lim else ("bad", lack(m, "the product"))
    return "bad", "unknown operation"


def _at_least_one(e):
    """a sum of non-negative terms one of which is a Frame's temporary_base (>= 1, clause frame-allocator)"""
    if e[0] == "L":
        return e[1].endswith(".temporary_base")
    if e[0] == "cast":
        return _at_least_one(e[1])
    if e[0] == "add":
        return nonneg(e[1]) and nonneg(e[2]) and (_at_least_one(e[1]) or _at_least_one(e[2]))
    return False


def _frame_allocator(cx, r):
    """the Frame allocator's invariant temporary_base + temporary_count <= 255, structurally:
       - temporary_count is written only by push_register / pop_register; temporary_base by nobody (set in new),
       - push_register's increment is on the false edge of `base + count == u8::MAX`,
       - pop_register's decrement is on the false edge of `count == 0`,
       - local_registers grows only in new / reserve_local_register / assign_local_register (whose index casts are
         decided by the general clause: same-expression guard `len - 1 < temporary_base`),
       - Frame::new computes temporary_base with u8::try_from."""
    F = cx.F
    ok = True
    writers = {"temporary_count": set(), "temporary_base": set(), "temporaries_used_in_frame": set()}
    pushers = set()
    frame_fns = [fn for fn in F.fns.values() if fn.qual.startswith(FRAME) and fn.crate.uname == CRATE]
    require(len(frame_fns) >= 15, "R-NARROW: koto_bytecode::Frame methods not found")
    for fn in frame_fns:
        short = fn.qual[len(FRAME):].split("::")[0]
        for b in fn.blocks:
            if b.cleanup:
                continue
            for st in b.stmts:
                if st[0] == "a" and st[1][0] == 1:
                    fs = place_fields(st[1])
                    if fs and fs[0] in writers:
                        writers[fs[0]].add(short)
        sym = None
        for c in fn.calls():
            if (c.pretty or c.short or "").rsplit("::", 1)[-1] in ("push", "extend", "insert", "resize") and c.args:
                sym = sym or Sym(cx, fn)
                a0 = op_place(c.args[0])
                if a0 is not None and sym.canon(a0[0], place_fields(a0)).startswith(("self.local_registers",
                                                                                      "local_registers")):
                    pushers.add(short)
    r.instances += 7
    r.nontrivial += 7
    fr = F.fn(FRAME + "push_register")
    file = fr.file if fr is not None else "crates/bytecode/src/frame.rs"

    def bad(slot, msg, cascade=True):
        nonlocal ok
        if cascade:
            ok = False      # the counters' arithmetic is then decided site by site
        r.add(Finding("R-NARROW", FRAME.rstrip(":"), "frame-allocator:" + slot, msg, file, 0))

    if not writers["temporary_count"] <= {"push_register", "pop_register"}:
        bad("count-writers", f"temporary_count is written outside push_register / pop_register: "
                             f"{sorted(writers['temporary_count'])}")
    if writers["temporary_base"]:
        bad("base-writers", f"temporary_base is written after construction: {sorted(writers['temporary_base'])}")
    if not writers["temporaries_used_in_frame"] <= {"push_register"}:
        bad("used-writers", "temporaries_used_in_frame is written outside push_register")
    if not pushers <= {"new", "reserve_local_register", "assign_local_register"}:
        bad("local-pushers", f"local_registers grows outside new / reserve_local_register / assign_local_register: "
                             f"{sorted(pushers)}")
    require("push_register" in writers["temporary_count"], "R-NARROW: push_register no longer writes temporary_count")
    for name, want in (("push_register", "inc"), ("pop_register", "dec")):
        fn = F.fn(FRAME + name)
        require(fn is not None, f"R-NARROW: Frame::{name} not found")
        fb = FnBounds(cx, fn)
        found = False
        for kind, bb, ops, dt, stt, loc, cond in sites(fn):
            exprs = [fb.sym.expr(o) for o in ops]
            if want == "inc" and kind == "Add" and exprs[1] == ("K", 1):
                found = True
                g_ok = False
                for (gb, dest, opn, le, re_, cty) in fb.gs:
                    if not fb.cfg.dominates(gb, bb):
                        continue
                    if leaves_of(le) >= {"self.temporary_base", "self.temporary_count"} and _const_bound(re_) == 255 \
                            and opn in ("Eq", "Ge") and edge_side(cx, fn, fb.cfg, gb, dest, bb) == "false":
                        g_ok = True
                if not g_ok:
                    bad("push-guard", "push_register increments temporary_count without first comparing "
                                      "temporary_base + temporary_count with u8::MAX")
            if want == "dec" and kind == "Sub" and exprs[1] == ("K", 1):
                found = True
                g_ok = False
                for (gb, dest, opn, le, re_, cty) in fb.gs:
                    if fb.cfg.dominates(gb, bb) and leaves_of(le) == {"self.temporary_count"} and _const_bound(re_) == 0 \
                            and opn == "Eq" and edge_side(cx, fn, fb.cfg, gb, dest, bb) == "false":
                        g_ok = True
                if not g_ok:
                    bad("pop-guard", "pop_register decrements temporary_count without testing it for zero")
        require(found, f"R-NARROW: the counter update in Frame::{name} was not found")
    for name in ("reserve_local_register", "assign_local_register"):
        fn = F.fn(FRAME + name)
        require(fn is not None, f"R-NARROW: Frame::{name} not found")
        # (their index casts, when present, are decided by the general clause; when the push moved into a helper the
        # local-pushers clause above reports it)
    fn = F.fn(FRAME + "new")
    require(fn is not None, "R-NARROW: Frame::new not found")
    tf = [c for c in fn.calls() if (c.pretty or c.short or "").endswith("try_from") and c.args]
    if not tf:
        bad("new-try-from", "Frame::new does not compute temporary_base with u8::try_from", cascade=False)
    else:
        e = Sym(cx, fn).expr(tf[0].args[0])

        def has_one(x):
            if x[0] == "K":
                return x[1] >= 1
            if x[0] == "cast":
                return has_one(x[1])
            if x[0] == "add":
                return nonneg(x[1]) and nonneg(x[2]) and (has_one(x[1]) or has_one(x[2]))
            return False
        if not has_one(e):
            bad("new-base-one", "Frame::new no longer reserves register 0 (temporary_base = 1 + ..): "
                                "next_temporary_register() - 1 can underflow")
    return ok


def _callee_leaf(cx, cf, param, field):
    """the name under which the callee's sites see `len(<param>)` / `len(<param>.<field>)`: parameters are addressed by
    position, so renaming them does not matter"""
    if field is None:
        return "len(" + (cf.local_name(param) or f"arg{param}") + ")"
    du = cx.du(cf)
    for l, ds in du.defs.items():
        if len(ds) == 1 and ds[0][2] == "assign" and ds[0][3][0] == "use":
            pl = op_place(ds[0][3][1])
            if pl is not None and pl[0] == param and place_fields(pl) == [field] and cf.local_name(l):
                return "len(" + cf.local_name(l) + ")"
    return "len(" + (cf.local_name(param) or f"arg{param}") + "." + field + ")"


def _actual_operand(cx, fn, c, param, field):
    """the operand the caller passes for the callee's parameter (or for the field of an aggregate argument)"""
    if param - 1 >= len(c.args):
        return None
    op = c.args[param - 1]
    if field is None:
        return op
    du = cx.du(fn)
    l = op_base(op)
    for _ in range(6):
        if l is None:
            return None
        d = du.single_def(l)
        if d is None or d[2] != "assign":
            return None
        rv = d[3]
        if rv[0] == "agg" and rv[1][0] == "adt" and field in rv[1][3]:
            return rv[2][rv[1][3].index(field)]
        if rv[0] in ("use", "cast"):
            l = op_base(rv[1] if rv[0] == "use" else rv[2])
        else:
            return None
    return None


def _caller_bounds(cx, r):
    """check BOUNDED_BY_CALLER against the call graph and the callers' guards; returns {(callee, leaf): bound}"""
    F = cx.F
    out = {}
    for ent in BOUNDED_BY_CALLER:
        callee, bound, callers, why = ent["callee"], ent["bound"], ent["callers"], ent["why"]
        cf = F.fn(callee)
        require(cf is not None, f"R-NARROW: {callee} not found")
        leaf = _callee_leaf(cx, cf, ent["param"], ent["field"])
        actual = {}
        for fn in F.fns.values():
            if fn.crate.uname != CRATE:
                continue
            for c in fn.calls():
                if c.resolved == cf.name or c.short == callee:
                    root = F.fns.get(fn.root) if fn.kind == "Closure" else fn
                    actual.setdefault((root or fn).qual, []).append((fn, c))
        require(actual, f"R-NARROW: no caller of {callee} found")
        r.instances += 1
        r.nontrivial += 1
        good = True
        cshort = callee.rsplit("::", 1)[-1]
        what = f"parameter {ent['param']}" + (f".{ent['field']}" if ent["field"] else "")
        for cq in actual:
            if cq == callee:
                continue      # recursion re-enters through a listed caller or passes its own bounded parameter
            if cq not in callers:
                good = False
                r.add(Finding("R-NARROW", callee, f"caller:{cq.rsplit('::', 1)[-1]}:{what}",
                              f"{cq} calls {cshort} but is not known to bound the length of {what} (<= {bound})",
                              cf.file, cf.line))
        for cq, how in callers.items():
            for fn, c in actual.get(cq, ()):
                fb = FnBounds(cx, fn)
                slot = f"caller:{cq.rsplit('::', 1)[-1]}:{what}"
                op = _actual_operand(cx, fn, c, ent["param"], ent["field"])
                if op is None:
                    good = False
                    r.add(Finding("R-NARROW", callee, slot, f"the argument {cq} passes for {what} of {cshort} was not "
                                  f"understood", fn.file, c.line))
                    continue
                pl = op_place(op)
                aleaf = "len(" + fb.sym.canon(pl[0], place_fields(pl)) + ")" if pl is not None else None
                if how == "empty":
                    ok = False
                    l = op_base(op)
                    du = cx.du(fn)
                    for _ in range(5):
                        d = du.single_def(l) if l is not None else None
                        if d is None or d[2] != "assign":
                            break
                        rv = d[3]
                        if rv[0] == "cast" and "; 0]" in fn.crate.tstr(rv[4]):
                            ok = True
                            break
                        if rv[0] in ("use", "cast"):
                            l = op_base(rv[1] if rv[0] == "use" else rv[2])
                        elif rv[0] in ("ref", "rawptr"):
                            l = rv[2][0]
                            if "; 0]" in fn.local_tstr(l):
                                ok = True
                                break
                        else:
                            break
                    if not ok:
                        good = False
                        r.add(Finding("R-NARROW", callee, slot, f"{cq} no longer passes an empty list for {what} of "
                                      f"{cshort}", fn.file, c.line))
                elif how == "guard":
                    b = fb.at(c.bb)
                    if aleaf is None or b.leaf_ub.get(aleaf, INF) > bound:
                        good = False
                        r.add(Finding("R-NARROW", callee, slot, f"{cq} calls {cshort} without first bounding {aleaf} "
                                      f"by {bound}: {why}", fn.file, c.line))
                elif how == "try_from":
                    okc = False
                    for c2 in fn.calls():
                        if (c2.pretty or c2.short or "").endswith("try_from") and c2.args and \
                                fb.cfg.dominates(c2.bb, c.bb):
                            e = fb.sym.expr(c2.args[0])
                            if leaves_of(e) == {aleaf} and "Result<u8" in fn.local_tstr(c2.dest[0]):
                                okc = True
                    if not okc:
                        good = False
                        r.add(Finding("R-NARROW", callee, slot, f"{cq} calls {cshort} without u8::try_from({aleaf}): "
                                      f"{why}", fn.file, c.line))
        if good:
            out[(callee, leaf)] = bound
    return out


# ---------------------------------------------------------------------------------------------
# operands that the reader decodes as signed bytes

def signed_fields(cx):
    """{Instruction variant: operand byte position} for the fields the reader builds with `byte as i8`"""
    F = cx.F
    fn = None
    for f in F.fns.values():
        if f.crate.uname == CRATE and f.impl_trait == "Iterator" and f.method == "next" and \
                "InstructionReader" in (f.impl_self or ""):
            fn = f
    require(fn is not None, "R-NARROW: InstructionReader::next not found")
    du = cx.du(fn)
    out = {}
    for b in fn.blocks:
        if b.cleanup:
            continue
        for st in b.stmts:
            if st[0] != "a" or st[2][0] != "agg" or st[2][1][0] != "adt":
                continue
            if not fn.crate.defs[st[2][1][1]].endswith("::Instruction"):
                continue
            variant = st[2][1][2]
            for o in st[2][2]:
                l = op_base(o)
                if l is None or fn.local_tstr(l) != "i8":
                    continue
                d = du.single_def(l)
                pos = None
                if d is not None and d[2] == "assign" and d[3][0] == "cast" and fn.crate.tstr(d[3][4]) == "u8":
                    src = op_place(d[3][2])
                    for _ in range(4):
                        if src is None:
                            break
                        dd = du.single_def(src[0])
                        if dd is None or dd[2] != "assign" or dd[3][0] != "use":
                            break
                        pl = op_place(dd[3][1])
                        if pl is None:
                            break
                        ci = place_const_index(pl)
                        if ci is not None:
                            pos = 1 + ci      # byte_a is operand 0; the array holds the bytes after it
                            break
                        src = pl
                require(pos is not None, f"R-NARROW: the byte position of the signed field of Instruction::{variant} "
                                         f"could not be determined")
                out[variant] = pos
    require(len(out) >= 3, "R-NARROW: fewer signed instruction fields than expected in the reader")
    return out


def _signed_operands(cx, r, caller_bounds):
    F = cx.F
    sf = signed_fields(cx)
    n = 0
    for fn in F.fns.values():
        if fn.crate.uname != CRATE or not fn.qual.startswith(COMP):
            continue
        fb = None
        du = cx.du(fn)
        for c in fn.calls():
            if c.short not in (COMP + "push_op", COMP + "push_op_without_span") or len(c.args) < 3:
                continue
            opl = op_base(c.args[1])
            opname = None
            d = du.single_def(opl) if opl is not None else None
            if d is not None and d[2] == "assign" and d[3][0] == "agg" and d[3][1][0] == "adt":
                opname = d[3][1][2]
            if opname not in sf:
                continue
            pos = sf[opname]
            arr = _array_elems(fn, du, c.args[2])
            n += 1
            r.instances += 1
            r.nontrivial += 1
            if arr is None or pos >= len(arr):
                r.add(Finding("R-NARROW", fn.qual, f"signed:{opname}", f"operand array of {opname} not understood",
                              fn.file, c.line))
                continue
            if fb is None:
                extra = {leaf: b for (callee, leaf), b in caller_bounds.items() if callee == fn.qual}
                fb = FnBounds(cx, fn, extra)
            e = fb.sym.expr(arr[pos])
            ok, why = _fits_i8(e, fb, c.bb)
            r.sample({"fn": fn.qual, "line": c.line, "op": opname, "operand": _short(e), "fits_i8": ok, "why": why},
                     limit=40)
            if not ok:
                r.add(Finding("R-NARROW", fn.qual, f"signed:{opname}:{_short(e)}",
                              f"operand {pos} of {opname} is decoded as a signed byte, but the value written can exceed "
                              f"127 ({why}): element indices beyond 127 address the wrong element", fn.file, c.line))
    return n


def _array_elems(fn, du, op):
    l = op_base(op)
    for _ in range(6):
        if l is None:
            return None
        d = du.single_def(l)
        if d is None or d[2] != "assign":
            return None
        rv = d[3]
        if rv[0] == "agg" and rv[1][0] == "array":
            return list(rv[2])
        if rv[0] in ("use", "cast"):
            l = op_base(rv[1] if rv[0] == "use" else rv[2])
        elif rv[0] in ("ref", "rawptr"):
            l = rv[2][0]
        else:
            return None
    return None


def _fits_i8(e, fb, site_bb):
    """the u8 operand is either the reinterpretation of an i8 value, or at most 127"""
    if e[0] == "cast" and e[3] == "i8":
        return True, "reinterpreted i8"
    if e[0] == "phi":
        res = [_fits_i8(x, fb, db) for x, db in zip(e[3], e[4])]     # bounds at each definition's own site
        bad = [w for ok, w in res if not ok]
        return (not bad), (bad[0] if bad else "all definitions fit")
    bnd = fb.at(site_bb)
    bnd.missing = set()
    m = bnd.mag(e)
    if m <= 127:
        return True, f"<= {m}"
    return False, (f"no bound <= 127 for {', '.join(sorted(bnd.missing))}" if bnd.missing else f"bound is {m}")


# ---------------------------------------------------------------------------------------------
# R-VM-REGS (C06): byte arithmetic in the VM's calling convention

VM = "koto_runtime::KotoVm::"
REGCOUNT = "len(self.registers)"
REG_MAX = 254       # the largest register index: Frame::push_register refuses 255, new_frame_base refuses 255

# u8 sites in koto_runtime that are safe by an invariant which is not a dominating comparison in the same function.
# One line of reason each; confirmed by reading.  A site that is not listed and not decided by the interval analysis is
# a violation.
REVIEWED_VM = {
    ("koto_runtime::KFunction::expected_arg_count", "Sub:self.arg_count,1"): (
        "on the `is_variadic()` edge only: a variadic function declares at least the variadic arg",
        ("call-true", "is_variadic")),
    ("koto_runtime::KotoVm::call_and_run_function", "cast:len(args)"): (
        "the arg registers are pushed first and the final new_frame_base() check (before the count is used) fails when "
        "more than 255 registers were pushed", ("later-call", "new_frame_base")),
    ("koto_runtime::KotoVm::execute_instruction",
     "Add:instruction.<SequencePushN>.start,instruction.<SequencePushN>.count"): (
        "compile_make_sequence emits batches of at most available_registers_count() = 255 - start elements "
        "(R-NARROW: chunks / register-backed len(elements_batch))", None),
    ("koto_runtime::KotoVm::run_make_function",
     "Add:function_instruction.<Function>.optional_arg_count,function_instruction.<Function>.capture_count"): (
        "compile_function refuses optional_args.len() + captures.len() > 255 (looked up on every run)",
        ("compile-sum",)),
    ("koto_runtime::KotoVm::call_generator", "Add:call_info.frame_base+1,expected_arg_count::t2"): (
        "on the `arg_count > expected_arg_count` edge only, and frame_base + 1 + arg_count <= 255 because the args "
        "occupy registers of the caller's window", ("rel", "call_info.arg_count", "expected_arg_count::t2")),
    ("koto_runtime::KotoVm::unpack_packed_arguments", "cast:len(unpacked_values)"): (
        "the loop returns an error when len reaches max_unpacked_args = 255 - arg_count - 1",
        ("has-guard", "len(unpacked_values)", "info.arg_count")),
    ("koto_runtime::KotoVm::unpack_packed_arguments", "Add:info.arg_count,len(unpacked_values)"): (
        "len <= 255 - arg_count - 1 (max_unpacked_args test inside the loop)",
        ("has-guard", "len(unpacked_values)", "info.arg_count")),
    ("koto_runtime::KotoVm::unpack_packed_arguments", "Sub:255-info.arg_count,1"): (
        "frame_base + 1 + arg_count <= 255 (the args occupy registers), so arg_count <= 254", None),
    ("koto_runtime::KotoVm::unpack_packed_arguments", "Sub:info.arg_count,1"): (
        "inside the loop over the packed args, each of which is counted in arg_count", ("in-loop",)),
    ("koto_runtime::vm::apply_optional_arguments", "Sub:f.arg_count,f.optional_arg_count"): (
        "optional args are a subset of the function's args (compile_function collects them from `args`)", None),
}


def _review_holds(cx, fb, site_bb, cond, check, comp_sum_ok):
    """the structural part of a reviewed reason still holds"""
    if check is None:
        return True
    fn, cfg = fb.fn, fb.cfg
    if check[0] == "compile-sum":
        return comp_sum_ok
    if check[0] == "in-loop":
        return site_bb in fb.loop_blocks
    if check[0] == "call-true":
        for c in fn.calls():
            if (c.pretty or c.short or "").rsplit("::", 1)[-1] == check[1] and not c.dest[1] and \
                    (c.bb == site_bb or cfg.dominates(c.bb, site_bb)) and \
                    edge_side(cx, fn, cfg, c.bb, c.dest[0], site_bb) == "true":
                return True
        return False
    if check[0] == "later-call":
        # every path from the site to a non-error use passes the call: approximated as the call post-dominating
        # the site on normal edges = no path from the site to a return that avoids the call's block
        calls = {c.bb for c in fn.calls() if (c.pretty or c.short or "").rsplit("::", 1)[-1] == check[1]
                 and site_bb in cfg.reach and c.bb in cfg.reachable_after(site_bb)}
        if not calls:
            return False
        rets = set(cfg.exits)
        return cfg.find_path(site_bb, lambda b: b in rets, avoid=calls) is None
    if check[0] == "rel":
        for (gb, dest, opn, le, re_, cty) in fb.gs:
            if not (gb == site_bb or cfg.dominates(gb, site_bb)):
                continue
            l, rr = _short(le), _short(re_)
            side = edge_side(cx, fn, cfg, gb, dest, site_bb)
            op = opn.lower()
            if (l, rr) == (check[1], check[2]) and ((op == "gt" and side == "true") or (op == "le" and side == "false")):
                return True
            if (l, rr) == (check[2], check[1]) and ((op == "lt" and side == "true") or (op == "ge" and side == "false")):
                return True
        return False
    if check[0] == "has-guard":
        for (gb, dest, opn, le, re_, cty) in fb.gs:
            la, lb = leaves_of(le) | _phi_names(le), leaves_of(re_) | _phi_names(re_)
            if (check[1] in la and check[2] in lb) or (check[1] in lb and check[2] in la):
                return True
        return False
    return False


def _is_register_leaf(n):
    last = n.rsplit(".", 1)[-1]
    return last == "frame_base" or n.endswith("frame_base") or "register" in n.split("(")[0]


def rule_vm_regs(cx, tier):
    r = RuleResult("R-VM-REGS", "byte arithmetic of the VM's calling convention cannot overflow: (a) the frame's register "
                                "count `registers.len() - register_base` reaches a u8 only through `u8::try_from`, never "
                                "through `as u8` or an unchecked addition; (b) every `CallInfo.frame_base` comes from the "
                                "bytecode or from new_frame_base(), which refuses 255, so `frame_base + 1` is addressable; "
                                "(c) every other overflow-checked u8 operation / narrowing cast in koto_runtime is bounded "
                                "by a dominating comparison or listed with its invariant")
    F = cx.F
    n_conv = 0
    n_sites = 0
    n_prod = 0
    used = set()
    # (b) producers of CallInfo.frame_base
    nfb = F.fn(VM + "new_frame_base")
    require(nfb is not None, "R-VM-REGS: KotoVm::new_frame_base not found")
    fbn = FnBounds(cx, nfb)
    base_guard = any(opn in ("Lt", "Ne", "Ge", "Eq", "Le", "Gt") and
                     ((_const_bound(re_) in (255, 254)) or (_const_bound(le) in (255, 254))) and cty == "u8"
                     for (gb, dest, opn, le, re_, cty) in fbn.gs)
    r.instances += 1
    r.nontrivial += 1
    if not base_guard:
        r.add(Finding("R-VM-REGS", nfb.qual, "frame-base-max", "new_frame_base() no longer refuses 255: the call machinery "
                      "addresses the first argument as frame_base + 1 in u8 arithmetic", nfb.file, nfb.line))
    for fn in F.fns.values():
        if fn.crate.uname != "koto_runtime" or fn.derived:
            continue
        sym = None
        for b in fn.blocks:
            if b.cleanup:
                continue
            for st in b.stmts:
                if st[0] == "a" and st[2][0] == "agg" and st[2][1][0] == "adt" and \
                        fn.crate.defs[st[2][1][1]].endswith("::CallInfo") and "frame_base" in st[2][1][3]:
                    sym = sym or Sym(cx, fn)
                    op = st[2][2][st[2][1][3].index("frame_base")]
                    e = sym.expr(op)
                    n_prod += 1
                    r.instances += 1
                    r.nontrivial += 1
                    if e[0] == "phi" and e[1].startswith("new_frame_base::"):
                        ok = True       # the (inlined) result of new_frame_base()
                    else:
                        names = leaves_of(e) | _phi_names(e)
                        ok = bool(names) and all(n.startswith("instruction.") or n.endswith(".frame_base") for n in names)
                    r.sample({"fn": fn.qual, "CallInfo.frame_base": _short(e), "accepted_source": ok})
                    if not ok:
                        r.add(Finding("R-VM-REGS", fn.qual, "frame-base-source:" + _short(e),
                                      "CallInfo.frame_base is neither a register operand of the instruction nor the result "
                                      "of new_frame_base(): nothing keeps frame_base + 1 within a byte", fn.file,
                                      loc_line(st[3]) if len(st) > 3 else fn.line))
    # (a) + (c) sites
    comp_sum_ok = _compile_function_sum_guard(cx)
    for fn in F.fns.values():
        if fn.crate.uname != "koto_runtime" or fn.derived:
            continue
        sym = None
        for c in fn.calls():
            if (c.pretty or c.short or "").endswith("try_from") and c.args:
                sym = sym or Sym(cx, fn)
                if REGCOUNT in leaves_of(sym.expr(c.args[0])):
                    n_conv += 1
                    r.instances += 1
                    r.nontrivial += 1
                    r.sample({"fn": fn.qual, "line": c.line, "checked_conversion_of": _short(sym.expr(c.args[0]))})
        ss = sites(fn)
        if not ss:
            continue
        fb = FnBounds(cx, fn)
        for kind, bb, ops, dt, stt, loc, cond in ss:
            exprs = [fb.sym.expr(o) for o in ops]
            if all(e[0] in ("K", "B") for e in exprs):
                continue
            n_sites += 1
            r.instances += 1
            r.nontrivial += 1
            slot = f"{kind}:" + ",".join(_short(e) for e in exprs)
            line = loc_line(loc)
            ls = set()
            for e in exprs:
                leaves_of(e, ls)
            if REGCOUNT in ls:
                if kind == "cast":
                    msg = (f"the frame's register count is narrowed with `as {dt}`: in a frame that uses all its registers "
                           f"the index wraps and the operation reads and writes the wrong registers")
                else:
                    msg = (f"overflow-checked {dt} `{kind}` on a register index derived from the frame's register count: "
                           f"panics when the frame uses all 255 registers")
                r.add(Finding("R-VM-REGS", fn.qual, slot, msg, fn.file, line))
                continue
            bnd = fb.at(bb, cond)
            bnd.leaf_ub = dict(bnd.leaf_ub)
            for n in ls:
                if _is_register_leaf(n):
                    bnd.leaf_ub[n] = min(bnd.leaf_ub.get(n, INF), REG_MAX)
            verdict, why = _decide(kind, dt, exprs, bnd, False)
            if verdict != "ok" and kind == "Sub" and dt != "i8" and _relational_sub(fb, bb, cond, exprs):
                verdict, why = "ok", "dominating comparison of the two operands"
            if verdict != "ok" and (fn.qual, slot) in REVIEWED_VM:
                reason, check = REVIEWED_VM[(fn.qual, slot)]
                if _review_holds(cx, fb, bb, cond, check, comp_sum_ok):
                    used.add((fn.qual, slot))
                    verdict, why = "ok", "reviewed: " + reason[:80]
                else:
                    why = f"the condition its review relies on no longer holds ({check}): {reason[:120]}"
            r.sample({"fn": fn.qual, "line": line, "site": slot, "verdict": verdict, "why": why}, limit=40)
            if verdict != "ok":
                r.add(Finding("R-VM-REGS", fn.qual, slot, f"{_describe(kind, dt, stt)} without a bound: {why}", fn.file,
                              line))
    r.analysed = {"checked_conversions_of_register_count": n_conv, "byte_sites": n_sites,
                  "CallInfo_producers": n_prod, "reviewed_sites_used": len(used), "reviewed_table": len(REVIEWED_VM)}
    r.floor("checked conversions (u8::try_from) of the frame's register count", n_conv, 1)
    r.floor("CallInfo construction sites", n_prod, 3)
    r.floor("byte arithmetic sites in koto_runtime", n_sites, 7)
    return r


def _relational_sub(fb, site_bb, cond, exprs):
    """a - b with a dominating `a > b` / `b < a` / `a >= b` / `b <= a` on the taken edge"""
    a, b = strip_phi(exprs[0]), strip_phi(exprs[1])
    removed = assume_at(fb.cx, fb.fn, fb.cfg, site_bb)
    cfg = PrunedCfg(fb.cfg, removed) if removed else fb.cfg
    for (gb, dest, opn, le, re_, cty) in fb.gs:
        if not (gb == site_bb or cfg.dominates(gb, site_bb)):
            continue
        l, rr = strip_phi(le), strip_phi(re_)
        side = edge_side(fb.cx, fb.fn, cfg, gb, dest, site_bb)
        if side is None:
            continue
        op = opn.lower()
        if (l, rr) == (a, b):
            if (op in ("gt", "ge") and side == "true") or (op in ("lt", "le") and side == "false"):
                return True
        if (l, rr) == (b, a):
            if (op in ("lt", "le") and side == "true") or (op in ("gt", "ge") and side == "false"):
                return True
    return False


def _compile_function_sum_guard(cx):
    """compile_function bounds optional_args.len() + captures.len() by 255"""
    fn = cx.F.fn(COMP + "compile_function")
    if fn is None:
        return False
    fb = FnBounds(cx, fn)
    for c in fn.calls():
        if c.short == COMP + "compile_frame":
            b = fb.at(c.bb)
            return any(s >= {"len(optional_args)", "len(captures)"} and ub <= 255 for s, ub in b.sums)
    return False


# ---------------------------------------------------------------------------------------------
# R-CURSOR (C06, C13): an iterator cursor that can step past its bound is compared with it before being subtracted

def _alternatives(e, out=None, depth=0):
    out = [] if out is None else out
    if e[0] == "phi" and depth < 6:
        for x in e[3]:
            _alternatives(x, out, depth + 1)
    elif e[0] == "cast":
        _alternatives(e[1], out, depth + 1)
    elif e[0] == "none":
        pass
    else:
        out.append(e)
    return out


def _maybe_positive(e):
    for x in _alternatives(e):
        if x[0] == "K" and x[1] >= 1:
            return True
        if x[0] == "L" and x[1].startswith("len("):
            return True
        if x[0] == "add" and (_maybe_positive(x[1]) or _maybe_positive(x[2])):
            return True
    return False


def rule_cursor(cx, tier):
    r = RuleResult("R-CURSOR", "an iterator whose cursor can be set past the end of its input (`self.start = end + k` with "
                               "`end` possibly equal to the input's length) compares the cursor with the length before every "
                               "overflow-checked `len - cursor`: exhausted iterators are still asked for size_hint() / next()")
    F = cx.F
    groups = {}
    for fn in F.fns.values():
        if fn.crate.uname != "koto_runtime" or fn.derived or fn.kind == "Closure":
            continue
        if fn.impl_trait in ("Iterator", "KotoIterator", "DoubleEndedIterator", "ExactSizeIterator") and fn.impl_self:
            groups.setdefault(fn.impl_self, []).append(fn)
    for fn in F.fns.values():      # inherent methods of the same types
        if fn.crate.uname == "koto_runtime" and not fn.derived and fn.kind != "Closure" and fn.impl_trait is None \
                and fn.impl_self in groups:
            groups[fn.impl_self].append(fn)
    n_types = 0
    n_over = 0
    for ty, fns in sorted(groups.items()):
        # cursor assignments
        overs = {}      # (cursor leaf, bound leaf) -> (fn, line)
        syms = {}
        for fn in fns:
            sym = syms.setdefault(fn.name, Sym(cx, fn))
            for b in fn.blocks:
                if b.cleanup:
                    continue
                for st in b.stmts:
                    if st[0] != "a" or st[1][0] != 1 or st[2][0] != "use":
                        continue
                    fs = place_fields(st[1])
                    if len(fs) != 1 or fn.crate.tstr(_pty(st[1])) != "usize" if _pty(st[1]) is not None else len(fs) != 1:
                        continue
                    e = sym.expr(st[2][1])
                    for x in _alternatives(e):
                        if x[0] != "add":
                            continue
                        for e1, e2 in ((x[1], x[2]), (x[2], x[1])):
                            if not _maybe_positive(e2):
                                continue
                            for alt in _alternatives(e1):
                                if alt[0] == "L" and alt[1].startswith("len(self."):
                                    overs.setdefault(("self." + fs[0], alt[1]), (fn, loc_line(st[3]) if len(st) > 3 else fn.line))
        if not any(True for _ in fns):
            continue
        n_types += 1
        if not overs:
            continue
        for (cur, bound), (afn, aline) in overs.items():
            n_over += 1
            for fn in fns:
                fb = None
                for c in fn.calls():
                    if (c.pretty or c.short or "").rsplit("::", 1)[-1] in ("saturating_sub", "checked_sub") and len(c.args) >= 2:
                        sym = syms.setdefault(fn.name, Sym(cx, fn))
                        a, b2 = sym.expr(c.args[0]), sym.expr(c.args[1])
                        if a[0] == "L" and a[1] == bound and b2[0] == "L" and b2[1] == cur:
                            r.instances += 1
                            r.nontrivial += 1
                            r.sample({"type": ty, "fn": fn.qual, "line": c.line, "site": f"{bound} - {cur}",
                                      "cursor_overshoots_at": f"{afn.qual.rsplit('::', 1)[-1]}:{aline}",
                                      "guarded": (c.pretty or c.short).rsplit("::", 1)[-1]})
                for bb, t in arith._asserts(fn):
                    if t[1] != "Overflow:Sub":
                        continue
                    sym = syms.setdefault(fn.name, Sym(cx, fn))
                    a, b2 = sym.expr(t[5][0]), sym.expr(t[5][1])
                    if not (a[0] == "L" and a[1] == bound and b2[0] == "L" and b2[1] == cur):
                        continue
                    r.instances += 1
                    r.nontrivial += 1
                    fb = fb or FnBounds(cx, fn)
                    ok = _relational_sub(fb, bb, op_base(t[2]), [a, b2])
                    r.sample({"type": ty, "fn": fn.qual, "line": loc_line(t[6]), "site": f"{bound} - {cur}",
                              "cursor_overshoots_at": f"{afn.qual.rsplit('::', 1)[-1]}:{aline}", "guarded": ok})
                    if not ok:
                        r.add(Finding("R-CURSOR", fn.qual, f"{bound}-{cur}",
                                      f"`{bound} - {cur}` is overflow-checked and not guarded, but {afn.qual} can set {cur} "
                                      f"past {bound} (line {aline}): calling this on an exhausted iterator panics "
                                      f"'attempt to subtract with overflow'", fn.file, loc_line(t[6])))
    r.analysed = {"iterator_types": n_types, "cursor_bound_pairs_that_can_overshoot": n_over}
    r.floor("iterator types in koto_runtime", n_types, 22)
    r.floor("cursor/bound pairs that can overshoot", n_over, 2)
    return r


# ---------------------------------------------------------------------------------------------
# R-STALE-INDEX (C06): no panicking index into a shared container inside a loop that runs user code

REENTRANT = ("call_function", "call_instance_function", "run_binary_op", "run_unary_op", "call_and_run_function",
             "make_iterator", "run_read_op", "run_write_op")
CONTAINER_GUARDS = ("KList::data", "KList::data_mut", "KMap::data", "KMap::data_mut")


def rule_stale_index(cx, tier):
    r = RuleResult("R-STALE-INDEX", "inside a loop that calls back into user code (a predicate, a key function, an overloaded "
                                    "operator) a shared list or map is never indexed with a panicking `[]`: the callback can "
                                    "shrink the container, so an index computed from an earlier len() must be re-validated "
                                    "(`get(i)`) after every callback")
    F = cx.F
    n_loops = 0
    n_idx = 0
    # private helpers of the runtime that make the callback on their caller's behalf (`call_predicate(vm, &f, x)`)
    wrappers = {g.name for g in F.fns.values() if g.crate.uname == "koto_runtime" and not g.derived and g.vis != "pub"
                and g.kind != "Closure" and not g.qual.startswith("koto_runtime::KotoVm::")
                and any((c.short or c.pretty or "").rsplit("::", 1)[-1] in REENTRANT for c in g.calls())}
    for fn in F.fns.values():
        if fn.derived or fn.crate.uname != "koto_runtime":
            continue
        calls = list(fn.calls())
        re_bbs = {c.bb for c in calls if (c.short or c.pretty or "").rsplit("::", 1)[-1] in REENTRANT
                  or (c.resolved in wrappers)}
        if not re_bbs:
            continue
        cfg = cx.cfg(fn)
        loops = [cfg.natural_loop(t, h) for (t, h) in cfg.back_edges()]
        loops = [L for L in loops if re_bbs & L]
        if not loops:
            continue
        n_loops += len(loops)
        du = cx.du(fn)
        label = cx.label(fn)
        seen = set()
        for c in calls:
            if not (c.pretty or "").endswith(("::index", "::index_mut")) or len(c.args) < 2:
                continue
            if not any(c.bb in L for L in loops) or c.bb in seen:
                continue
            # receiver: a guard obtained from data()/data_mut() of a list / map handle
            l = op_base(c.args[0])
            rr = du.root(l, through_calls=("Deref::deref", "DerefMut::deref_mut", "Borrow::borrow", "AsRef::as_ref",
                                           "Vec::as_slice", "Vec::as_mut_slice")) if l is not None else None
            if rr is None:
                continue
            if rr[0] == "field":
                rr = rr[1]
            if rr[0] != "call" or not any(rr[1].short.endswith(g) for g in CONTAINER_GUARDS):
                continue
            seen.add(c.bb)
            n_idx += 1
            r.instances += 1
            r.nontrivial += 1
            guard_call = rr[1]
            # a container created in this function cannot be reached by the callback
            h = op_base(guard_call.args[0]) if guard_call.args else None
            hr = du.root(h, through_calls=("Clone::clone", "Deref::deref")) if h is not None else None
            fresh = hr is not None and hr[0] == "call" and hr[1].short.rsplit("::", 1)[-1] in (
                "new", "with_capacity", "with_data", "from_slice", "default", "with_contents")
            r.sample({"fn": label, "line": c.line, "container": guard_call.short.rsplit("::", 2)[-2:],
                      "fresh_container": fresh})
            if fresh:
                continue
            r.add(Finding("R-STALE-INDEX", label, guard_call.short.rsplit("::", 1)[-1] + "[]",
                          f"`{guard_call.short.rsplit('::', 2)[-2]}::{guard_call.short.rsplit('::', 1)[-1]}()[i]` inside a "
                          f"loop that runs user code: a callback that shrinks the container makes the next index panic "
                          f"('index out of bounds')", fn.file, c.line))
    # ---- positional map access with a position that was looked up before user code ran
    POSITIONAL = ("get_index_mut", "get_index", "swap_remove_index", "shift_remove_index", "swap_indices", "move_index",
                  "get_index_entry", "shift_insert", "insert_before")
    LOOKUPS = ("index", "get_index_of", "get_full", "get_full_mut", "insert_full", "position")
    n_pos = 0
    for fn in F.fns.values():
        if fn.derived or fn.crate.uname != "koto_runtime":
            continue
        calls = list(fn.calls())
        re_bbs = {c.bb for c in calls if (c.short or c.pretty or "").rsplit("::", 1)[-1] in REENTRANT}
        pos = [c for c in calls if (c.pretty or c.short or "").rsplit("::", 1)[-1] in POSITIONAL and len(c.args) >= 2
               and ("IndexMap" in fn.crate.tstr(c.arg_ty(0)) or "ValueMap" in fn.crate.tstr(c.arg_ty(0)))]
        if not pos:
            continue
        cfg = cx.cfg(fn)
        du = cx.du(fn)
        label = cx.label(fn)
        for c in pos:
            n_pos += 1
            r.instances += 1
            stale = None
            sym = Sym(cx, fn)
            for a in c.args[1:]:
                if a[0] == "k":
                    continue
                names = leaves_of(sym.expr(a)) | _phi_names(sym.expr(a))
                looked = {n.split("(", 1)[0] for n in names if n.split("(", 1)[0] in LOOKUPS and "(" in n}
                if not looked:
                    continue
                r.nontrivial += 1
                for look in calls:
                    if (look.pretty or look.short or "").rsplit("::", 1)[-1] not in looked:
                        continue
                    if not (look.bb == c.bb or c.bb in cfg.reachable_after(look.bb)):
                        continue
                    between = [b for b in re_bbs if b in cfg.reachable_after(look.bb) and c.bb in cfg.reachable_after(b)]
                    if between:
                        stale = (look, between[0])
            r.sample({"fn": label, "line": c.line, "positional_op": (c.pretty or c.short).rsplit("::", 1)[-1],
                      "position_looked_up_before_user_code": stale is not None})
            if stale is not None:
                look, b = stale
                r.add(Finding("R-STALE-INDEX", label, "map-position:" + (c.pretty or c.short).rsplit("::", 1)[-1],
                              f"the map is addressed by a position (`{(c.pretty or c.short).rsplit('::', 1)[-1]}`) that was "
                              f"looked up at line {look.line}, before user code ran (line {line_of_bb(fn, b)}): a callback that "
                              f"inserts into or removes from the map moves entries, so the position addresses another "
                              f"key's entry", fn.file, c.line))
    r.analysed = {"loops_with_reentrant_calls": n_loops, "panicking_index_sites_in_them": n_idx,
                  "positional_map_operations": n_pos}
    r.floor("loops with re-entrant calls in koto_runtime", n_loops, 15)
    r.floor("positional IndexMap operations in koto_runtime", n_pos, 3)
    return r


def line_of_bb(fn, bb):
    from ..mir import line_of
    return line_of(fn, bb)


# ---------------------------------------------------------------------------------------------
# R-SIGN-INDEX (C06): a signed script value becomes an index / size only after a lower bound of zero

SIGNED_T = {"i8", "i16", "i32", "i64", "isize", "i128"}

REVIEWED_SIGN = {
    ("koto_runtime::KotoVm::unpack_packed_arguments", "usize"):
        "first_arg_index + register + offset: the offset is minus the number of args consumed by empty packed args that "
        "precede this one, each of which occupied one of the registers counted in the sum",
    ("koto_runtime::<StepToI64Iterator as Iterator>::size_hint", "usize"):
        "steps_to_target is the quotient computed by the constructor from a difference and a step of the same sign "
        "(the constructor's own arithmetic is the R-ARITH known finding)",
}


def provably_nonneg(e, bnd, depth=0):
    tag = e[0]
    if depth > 12:
        return False
    if strip_phi(e) in getattr(bnd, "nonneg_keys", ()):
        return True
    if tag == "K":
        return e[1] >= 0
    if tag in ("B", "T", "lt"):
        return True
    if tag == "L":
        return e[2] in UNSIGNED or e[1].startswith(("len(", "idx(", "count("))
    if tag == "cast":
        return e[3] in UNSIGNED or provably_nonneg(e[1], bnd, depth + 1)
    if tag in ("add", "mul"):
        return provably_nonneg(e[1], bnd, depth + 1) and provably_nonneg(e[2], bnd, depth + 1)
    if tag == "min":
        return provably_nonneg(e[1], bnd, depth + 1) and provably_nonneg(e[2], bnd, depth + 1)
    if tag == "max":
        return provably_nonneg(e[1], bnd, depth + 1) or provably_nonneg(e[2], bnd, depth + 1)
    if tag == "clamp":
        return provably_nonneg(e[2], bnd, depth + 1)
    if tag == "sub":
        a, b = e[1], e[2]
        # max(x, y) - y  and  max(x, y) - x
        if a[0] == "max" and (strip_phi(a[1]) == strip_phi(b) or strip_phi(a[2]) == strip_phi(b)):
            return True
        return False
    if tag == "phi":
        return all(provably_nonneg(x, bnd, depth + 1) for x in e[3])
    return False


def rule_sign_index(cx, tier):
    r = RuleResult("R-SIGN-INDEX", "a signed integer that can come from a script (i64 / isize) is cast to `usize` -- an "
                                   "index, a length, a range bound -- only when it is provably non-negative: clamped or "
                                   "`max`ed with a non-negative lower limit, or on the non-negative edge of a comparison with "
                                   "zero; a negative value wraps to a huge index and the slice / index operation panics")
    F = cx.F
    n = 0
    for fn in F.fns.values():
        if fn.derived or fn.crate.uname != "koto_runtime":
            continue
        fb = None
        for b in fn.blocks:
            if b.cleanup:
                continue
            for st in b.stmts:
                if st[0] != "a" or st[2][0] != "cast" or st[2][1] != "IntToInt" or st[2][2][0] == "k":
                    continue
                dt, stt = fn.crate.tstr(st[2][3]), fn.crate.tstr(st[2][4])
                if dt != "usize" or stt not in SIGNED_T:
                    continue
                n += 1
                r.instances += 1
                r.nontrivial += 1
                fb = fb or FnBounds(cx, fn)
                e = fb.sym.expr(st[2][2])
                bnd = fb.at(b.idx)
                ok = provably_nonneg(e, bnd)
                why = "non-negative by construction / guard" if ok else "no lower bound of zero"
                if not ok and (fn.qual, dt) in REVIEWED_SIGN:
                    ok, why = True, "reviewed: " + REVIEWED_SIGN[(fn.qual, dt)][:80]
                line = loc_line(st[3]) if len(st) > 3 else fn.line
                r.sample({"fn": cx.label(fn), "line": line, "value": _short(e)[:60], "from": stt, "ok": ok, "why": why})
                if not ok:
                    r.add(Finding("R-SIGN-INDEX", cx.label(fn), f"{stt}->usize:{_short(e)[:60]}",
                                  f"`{_short(e)[:80]} as usize` without a lower bound of zero: a negative value becomes an "
                                  f"index near usize::MAX and the slice / index operation that uses it panics", fn.file, line))
    r.analysed = {"signed_to_usize_casts": n}
    r.floor("signed -> usize casts in koto_runtime", n, 3)
    return r
