"""String validity rules: R-UNSAFE-BOUNDS, R-STR-OPTION (C15)."""
from ..engine import Broken, Finding, RuleResult, require
from ..mir import line_of, op_base, op_local, op_place, place_fields

SLICE = "koto_parser::string_slice::StringSlice"
VALIDATORS = ("str::get", "str::is_char_boundary", "String::get", "str::get_mut", "slice::get")


def _is_validator(c):
    p = c.pretty or ""
    last = p.rsplit("::", 1)[-1]
    if last in ("get", "is_char_boundary", "get_mut") and ("str" in p or "String" in p):
        return True
    return c.is_("SliceIndex::get") and True


def rule_unsafe_bounds(cx, tier):
    r = RuleResult("R-UNSAFE-BOUNDS", "every StringSlice (whose as_str uses get_unchecked) is built from bounds validated "
                                      "against its data: each safe function that constructs one either takes the bounds "
                                      "from an existing slice, or is dominated by str::get(..).is_some() / "
                                      "is_char_boundary on the data; callers of the unsafe constructor carry the obligation")
    require(SLICE in cx.F.adts, "R-UNSAFE-BOUNDS: StringSlice not found")
    # functions (with their closures) that build a StringSlice aggregate
    builders = {}
    for fn in cx.F.fns.values():
        c = fn.crate
        for b in fn.blocks:
            if b.cleanup:
                continue
            for st in b.stmts:
                if st[0] == "a" and st[2][0] == "agg" and st[2][1][0] == "adt" and c.defs[st[2][1][1]] == SLICE:
                    root = cx.F.fns.get(fn.root) if fn.kind == "Closure" else fn
                    builders.setdefault((root or fn).name, []).append((fn, b.idx, st))
    # the get_unchecked reader must exist (else the obligation is moot)
    readers = [f for f in cx.F.fns.values() if f.qual.startswith("koto_parser::StringSlice::") and
               any((c.pretty or "").endswith("get_unchecked") for c in f.calls())]
    require(readers, "R-UNSAFE-BOUNDS: no get_unchecked reader found on StringSlice (as_str changed?)")
    r.analysed = {"constructing_functions": sorted(cx.F.fns[n].qual for n in builders), "unchecked_readers": [f.qual for f in readers]}
    r.floor("functions constructing a StringSlice", len(builders), 3)
    # validating helpers: functions of the crate that return an Option and contain a range validator themselves
    # (`fn checked_bounds(data, bounds) -> Option<Range<T>> { if data.get(bounds).is_some() {..} else { None } }`)
    helpers = {g.name for g in cx.F.fns.values() if g.crate.uname == "koto_parser" and g.kind != "Closure" and not g.derived
               and "Option<" in (g.local_tstr(0) or "")
               and any(_is_validator(c) and not (c.pretty or "").endswith("is_char_boundary") for c in g.calls())
               and g.name not in builders}
    unsafe_ctors = set()
    for name, sites in sorted(builders.items()):
        fn = cx.F.fns[name]
        r.instances += 1
        r.nontrivial += 1
        if fn.derived:
            r.sample({"fn": fn.qual, "verdict": "derived impl: copies the fields of an existing slice"})
            continue
        # bounds can only be wrong if a caller can choose them: some parameter must be a range / integer
        argtys = [fn.crate.tstr(fn.local_ty(l)) for l in range(1, fn.argc + 1)]
        if not any(("Range<" in t or t in ("usize", "u16", "u32", "u64", "T")) for t in argtys) and \
                not any("StringSlice" in t for t in argtys):
            r.sample({"fn": fn.qual, "verdict": "no range / index parameter: bounds are computed from the data itself"})
            continue
        if fn.unsafe:
            unsafe_ctors.add(name)
            r.sample({"fn": fn.qual, "verdict": "unsafe fn: obligation moves to its callers"})
            continue
        cfg = cx.cfg(fn)
        du = cx.du(fn)
        vals = [c for c in fn.calls() if _is_validator(c) or c.resolved in helpers]
        verdict = None
        point_only = None
        for sfn, bb, st in sites:
            # the block in the parent from which the construction runs
            if sfn is fn:
                site_bb = bb
            else:
                site_bb = None
                for c in fn.calls():
                    if sfn.name in c.cl or sfn.name in c.cb:
                        site_bb = c.bb
                if site_bb is None:
                    verdict = ("undecided", "constructing closure's call site not found")
                    continue
            dom_vals = [v for v in vals if cfg.dominates(v.bb, site_bb) and v.bb != site_bb]
            dominated = bool(dom_vals)
            preserved = _bounds_preserved(cx, sfn, st, fn)
            if dominated and not preserved and all((v.pretty or "").endswith("is_char_boundary") for v in dom_vals):
                # a *point* validator says where a character starts in the shared data, not that the point lies inside
                # this slice: the stored range combines the point with one of the slice's own bounds, so an ordering
                # comparison against that bound has to dominate the construction as well
                from .narrow import Sym, guards, leaves_of
                sym = Sym(cx, fn)
                ordered = False
                for (gb, dest, opn, le, re_, cty) in guards(cx, fn, sym):
                    if opn in ("Lt", "Le", "Gt", "Ge") and (gb == site_bb or cfg.dominates(gb, site_bb)) and \
                            any("bounds.end" in x or "bounds.start" in x or x.startswith("len(")
                                for x in leaves_of(le) | leaves_of(re_)):
                        ordered = True
                if not ordered:
                    point_only = (sfn, bb)
                    continue
            if dominated or preserved:
                continue
            names = st[2][1][3]
            verdict = ("violation", sfn, bb)
        if verdict is None and point_only is not None:
            r.add(Finding("R-UNSAFE-BOUNDS", fn.qual, "point-not-ordered", "the new bounds combine a point that is only known "
                          "to be a character boundary of the *shared* data (`is_char_boundary`) with one of the slice's own "
                          "bounds, and no comparison orders the point against that bound: for a sub-slice a point beyond "
                          "its end gives inverted bounds, and as_str() runs get_unchecked on them (undefined behaviour "
                          "through a safe API)", fn.file, line_of(point_only[0], point_only[1])))
        elif verdict is None:
            r.sample({"fn": fn.qual, "validators": sorted({v.short for v in vals}), "verdict": "validated / preserved"})
        elif verdict[0] == "undecided":
            r.undecided.append(f"{fn.qual}: {verdict[1]}")
        else:
            _, sfn, bb = verdict
            r.add(Finding("R-UNSAFE-BOUNDS", fn.qual, "unvalidated", "a StringSlice is constructed from caller-supplied "
                          "bounds with no dominating str::get(..).is_some() / is_char_boundary check on its data: as_str() "
                          "then runs get_unchecked on bounds that may cut through a character or lie outside the data "
                          "(malformed text, undefined behaviour)", fn.file, line_of(sfn, bb)))
    # callers of unsafe constructors
    for name in unsafe_ctors:
        for fn in cx.F.fns.values():
            for c in fn.calls():
                if c.resolved != name:
                    continue
                r.instances += 1
                r.nontrivial += 1
                cfg = cx.cfg(fn)
                vals = [v for v in fn.calls() if _is_validator(v)]
                dominated = any(cfg.dominates(v.bb, c.bb) and v.bb != c.bb for v in vals)
                # bounds taken from the container's own table of validated bounds (ConstantPool::get_str_bounds)
                trusted = False
                if len(c.args) > 1:
                    l = op_base(c.args[1])
                    root = cx.du(fn).root(l) if l is not None else None
                    if root and root[0] == "call" and root[1].short.endswith("ConstantPool::get_str_bounds"):
                        trusted = True
                if not (dominated or trusted):
                    r.add(Finding("R-UNSAFE-BOUNDS", fn.qual, "unchecked-call", f"calls the unsafe {cx.F.fns[name].qual} "
                                  f"with bounds that are neither validated here nor taken from the constant pool's own "
                                  f"bounds table", fn.file, c.line))
                r.sample({"fn": fn.qual, "calls": cx.F.fns[name].qual, "validated": dominated, "bounds_from_pool_table": trusted})
    return r


def _bounds_preserved(cx, sfn, st, parent):
    """do the bounds of this construction come from `self.bounds` (an existing, already valid slice)"""
    names = st[2][1][3]
    if "bounds" not in names:
        return False
    o = st[2][2][names.index("bounds")]
    du = cx.du(sfn)
    l = op_base(o)
    if l is None:
        return False
    root = du.root(l)
    # in a closure passed to Option::map the bounds are the closure's parameter: look at what the parent maps over
    if root[0] == "arg" and sfn.kind == "Closure":
        pdu = cx.du(parent)
        for c in parent.calls():
            if sfn.name in c.cl or sfn.name in c.cb:
                for a in c.args:
                    al = op_base(a)
                    if al is None:
                        continue
                    ar = pdu.root(al)
                    if ar[0] == "call" and ar[1].args:
                        # try_from_range(&self.bounds)
                        bl = op_base(ar[1].args[0])
                        br = pdu.root(bl) if bl is not None else None
                        if br and br[0] == "field" and br[1] == ("arg", 1) and "bounds" in br[2]:
                            return True
        return False
    return root[0] == "field" and root[1] == ("arg", 1) and "bounds" in root[2]


def rule_str_option(cx, tier):
    r = RuleResult("R-STR-OPTION", "a slice that would cut through a character becomes an error or null: where the VM's "
                                   "index / slice instructions call KString::with_bounds, the None outcome is never "
                                   "unwrapped")
    VM = "koto_runtime::KotoVm::"
    n = 0
    for fn in cx.F.fns.values():
        if not (fn.qual.startswith(VM + "run_index") or fn.qual.startswith(VM + "run_slice") or fn.qual.startswith(VM + "run_temp_index")):
            continue
        du = cx.du(fn)
        for c in fn.calls():
            if not c.short.endswith("KString::with_bounds"):
                continue
            n += 1
            r.instances += 1
            r.nontrivial += 1
            d = c.dest[0]
            bad = None
            for c2 in fn.calls():
                if c2.is_("Option::unwrap", "Option::expect", "Option::unwrap_unchecked") and c2.args:
                    l = op_base(c2.args[0])
                    seen = 0
                    while l is not None and seen < 5:
                        if l == d:
                            bad = c2
                            break
                        dd = du.single_def(l)
                        if dd is None or dd[2] != "assign" or dd[3][0] != "use":
                            break
                        l = op_base(dd[3][1])
                        seen += 1
            if bad is not None:
                r.add(Finding("R-STR-OPTION", fn.qual, "unwrap", "the Option returned by KString::with_bounds (None = the "
                              "slice would cut through a character) is unwrapped: such an index panics instead of "
                              "raising an error", fn.file, bad.line))
            r.sample({"fn": fn.qual, "line": c.line, "none_unwrapped": bad is not None})
    r.analysed = {"with_bounds_call_sites_in_index_instructions": n}
    r.floor("with_bounds call sites in index/slice instructions", n, 2)
    return r


# ---------------------------------------------------------------------------------------------
# R-SLICE-TAIL (C06, C15): cutting a constant number of bytes off the end of a string needs a test of that suffix

def rule_slice_tail(cx, tier):
    r = RuleResult("R-SLICE-TAIL", "a `str` slice bound of the form `len(s) - k` with a constant k is a character boundary "
                                   "only when the last k bytes are known: every constant alternative of k is assigned on "
                                   "the true edge of an `ends_with`/`strip_suffix` test (a line without a trailing newline, "
                                   "or one ending in a multi-byte character, is otherwise cut inside its last character)")
    from .narrow import FnBounds, Sym, _alternatives, _short, edge_side
    from ..mir import op_base
    F = cx.F
    n = 0
    for fn in F.fns.values():
        if fn.derived or not fn.crate.uname.startswith("koto"):
            continue
        du = cx.du(fn)
        sym = None
        for c in fn.calls():
            last = (c.pretty or c.short or "").rsplit("::", 1)[-1]
            if last not in ("index", "index_mut", "get", "get_mut", "get_unchecked", "split_at") or len(c.args) < 2:
                continue
            t0 = fn.crate.tstr(c.arg_ty(0))
            if not ("str" in t0.split("<")[0] or "String" in t0 or t0.endswith("str")):
                continue
            n += 1
            r.instances += 1
            sym = sym or Sym(cx, fn)
            ops = [c.args[1]]
            d = du.single_def(op_base(c.args[1])) if op_base(c.args[1]) is not None else None
            if d is not None and d[2] == "assign" and d[3][0] == "agg":
                ops = list(d[3][2])
            for o in ops:
                e = sym.expr(o)
                subs = []
                _find_tail_subs(e, subs)
                for (lenleaf, k) in subs:
                    r.nontrivial += 1
                    cfg = cx.cfg(fn)
                    tests = [c2 for c2 in fn.calls() if (c2.pretty or c2.short or "").rsplit("::", 1)[-1] in
                             ("ends_with", "strip_suffix") and not c2.dest[1]]
                    alts = [(k, c.bb)] if k[0] == "K" else list(zip(k[3], k[4])) if k[0] == "phi" else []
                    bad = []
                    for alt, db in alts:
                        if alt[0] != "K" or alt[1] == 0:
                            if alt[0] != "K":
                                bad.append(_short(alt))
                            continue
                        ok = any((t.bb == db or cfg.dominates(t.bb, db)) and
                                 edge_side(cx, fn, cfg, t.bb, t.dest[0], db) == "true" for t in tests)
                        if not ok:
                            bad.append(str(alt[1]))
                    if not alts:
                        bad.append(_short(k))
                    r.sample({"fn": fn.qual, "line": c.line, "bound": _short(e), "unjustified_k": bad})
                    if bad:
                        r.add(Finding("R-SLICE-TAIL", fn.qual, f"{lenleaf}-k",
                                      f"the string is cut at `{_short(e)}`; for k = {', '.join(bad)} no `ends_with` test "
                                      f"establishes what the last bytes are: the slice drops a real character, or panics "
                                      f"inside a multi-byte one", fn.file, c.line))
    r.analysed = {"str_slicing_sites": n}
    r.floor("str slicing sites in the workspace", n, 7)
    return r


def _find_tail_subs(e, out):
    if e[0] == "sub" and e[1][0] == "L" and e[1][1].startswith("len(") and \
            (e[2][0] == "K" or (e[2][0] == "phi" and all(x[0] == "K" for x in e[2][3]))):
        out.append((e[1][1], e[2]))
        return
    if e[0] == "phi":
        for x in e[3]:
            _find_tail_subs(x, out)
    else:
        for x in e[1:]:
            if isinstance(x, tuple) and x and isinstance(x[0], str):
                _find_tail_subs(x, out)


# ---------------------------------------------------------------------------------------------
# R-CONV-UNWRAP (C06): unwrap of a value-dependent conversion needs the value to be in the convertible range

CHAR_TESTS = {"to_digit": ("is_ascii_hexdigit", "is_ascii_digit", "is_digit")}


def rule_conv_unwrap(cx, tier):
    r = RuleResult("R-CONV-UNWRAP", "`unwrap`/`expect` on a conversion whose success depends on the value -- "
                                    "`char::from_u32(x)` (fails for surrogates and beyond 0x10FFFF), `c.to_digit(r)`, "
                                    "`T::try_from(x)` -- is dominated by a test that puts the value in the convertible "
                                    "range: an upper bound below 0xD800 for from_u32, the matching `is_ascii_hexdigit`/"
                                    "`is_digit` test for to_digit, a bound within T for try_from; in the crates that process "
                                    "untrusted text (lexer, parser, format, bytecode, runtime)")
    from .narrow import FnBounds, TMAX, _short, edge_side
    from ..mir import op_base, op_place
    F = cx.F
    n = 0
    for fn in F.fns.values():
        if fn.derived or fn.crate.uname not in ("koto_lexer", "koto_parser", "koto_format", "koto_bytecode", "koto_runtime",
                                                "koto", "koto_serde", "koto_json", "koto_yaml", "koto_toml"):
            continue
        du = cx.du(fn)
        fb = None
        for c in fn.calls():
            if not c.is_("Option::unwrap", "Option::expect", "Result::unwrap", "Result::expect") or not c.args:
                continue
            l = op_base(c.args[0])
            rr = du.root(l) if l is not None else None
            if rr is not None and rr[0] == "field":
                rr = rr[1]
            if rr is None or rr[0] != "call" or not rr[1].args:
                continue
            conv = rr[1]
            last = (conv.pretty or conv.short or "").rsplit("::", 1)[-1]
            if last not in ("from_u32", "to_digit", "try_from", "try_into", "from_digit"):
                continue
            n += 1
            r.instances += 1
            r.nontrivial += 1
            fb = fb or FnBounds(cx, fn)
            e = fb.sym.expr(conv.args[0])
            cfg = fb.cfg
            ok, why = False, ""
            if last == "from_u32":
                b = fb.at(c.bb)
                m = b.mag(e)
                ok, why = m < 0xD800, f"value <= {m}"
            elif last in ("to_digit", "from_digit"):
                subj = _short(e)

                def ident(op):
                    """identity of the tested value: the producing call (not its name: two `chars.next()` are two values)"""
                    ll = op_base(op)
                    if ll is None:
                        return None
                    r0 = du.root(ll, through_calls=("Clone::clone", "Option::cloned", "Option::copied", "Deref::deref"))
                    flds = ()
                    if r0[0] == "field":
                        flds = tuple(r0[2])
                        r0 = r0[1]
                    if r0[0] == "call":
                        return ("call", r0[1].bb, flds)
                    return (r0[0], r0[1] if r0[0] in ("arg", "multi") else None, flds)
                sid = ident(conv.args[0])
                for t in fn.calls():
                    if (t.pretty or t.short or "").rsplit("::", 1)[-1] in CHAR_TESTS["to_digit"] and t.args and not t.dest[1]:
                        if sid is not None and ident(t.args[0]) == sid and (t.bb == c.bb or cfg.dominates(t.bb, c.bb)) and \
                                edge_side(cx, fn, cfg, t.bb, t.dest[0], c.bb) == "true":
                            ok, why = True, (t.pretty or t.short).rsplit("::", 1)[-1] + " tested"
                if not ok:
                    why = f"no digit test of {subj} on the way here"
            else:
                dst = fn.local_tstr(conv.dest[0])
                import re
                m2 = re.search(r"Result<(u8|i8|u16|i16|u32|i32)\b", dst)
                b = fb.at(c.bb)
                m = b.mag(e)
                lim = TMAX.get(m2.group(1), None) if m2 else None
                if lim is None and m2:
                    lim = {"u32": 2 ** 32 - 1, "i32": 2 ** 31 - 1}[m2.group(1)]
                ok = lim is not None and m <= lim
                why = f"value <= {m}" if ok else f"no bound within {m2.group(1) if m2 else 'the target type'}"
            r.sample({"fn": fn.qual, "line": c.line, "conversion": last, "operand": _short(e), "ok": ok, "why": why})
            if not ok:
                r.add(Finding("R-CONV-UNWRAP", fn.qual, f"{last}:{_short(e)}",
                              f"`{last}({_short(e)})` is unwrapped, but {why}: an input that makes the conversion fail "
                              f"(e.g. a surrogate code point for char::from_u32) panics instead of producing an error",
                              fn.file, c.line))
    r.analysed = {"unwrapped_value_dependent_conversions": n}
    r.floor("unwrapped value-dependent conversions", n, 3)
    return r


# ---------------------------------------------------------------------------------------------
# R-WIDTH-UNITS (C15): a format spec's width / precision is measured in grapheme clusters, not bytes

def rule_width_units(cx, tier):
    r = RuleResult("R-WIDTH-UNITS", "`min_width` and `precision` of a string format spec count grapheme clusters: wherever the "
                                    "runtime compares them with, or subtracts them from, the size of rendered text, that size "
                                    "is a grapheme count (`graphemes(..).count()`), never a byte length (`len()`) -- with a "
                                    "byte length a value containing multi-byte characters is not padded / is cut short")
    from .narrow import FnBounds, Sym, guards, leaves_of, _phi_names, _short
    from . import arith
    from ..facts import loc_line
    F = cx.F
    fields = set()
    for a in F.adts.values() if isinstance(F.adts, dict) else F.adts:
        name = a.get("name", "") if isinstance(a, dict) else ""
        if name.endswith("StringFormatOptions"):
            for v in a.get("variants", []):
                for f in v.get("fields", []):
                    fields.add(f[0] if isinstance(f, (list, tuple)) else f.get("name"))
    require({"min_width", "precision"} <= fields, "R-WIDTH-UNITS: StringFormatOptions no longer has min_width / precision "
                                                  f"fields (found {sorted(x for x in fields if x)})")

    def is_spec(x):
        return "min_width" in x or "precision" in x
    n = 0
    for fn in F.fns.values():
        if fn.derived or fn.crate.uname != "koto_runtime":
            continue
        sym = None
        pairs = []
        sym = Sym(cx, fn)
        for (gb, dest, opn, le, re_, cty) in guards(cx, fn, sym):
            pairs.append((gb, "compared with", le, re_, None))
        for bb, t in arith._asserts(fn):
            if t[1] in ("Overflow:Sub", "Overflow:Add") and len(t[5]) == 2:
                pairs.append((bb, "combined with", sym.expr(t[5][0]), sym.expr(t[5][1]), loc_line(t[6])))
        for c in fn.calls():
            if (c.pretty or c.short or "").rsplit("::", 1)[-1] in ("saturating_sub", "checked_sub", "min", "max") and len(c.args) >= 2:
                # a value that only becomes a capacity hint has no unit to get wrong
                d0 = c.dest[0]
                hint = any((c2.pretty or c2.short or "").rsplit("::", 1)[-1] in ("with_capacity", "reserve", "reserve_exact")
                           and any(op_base(a) == d0 for a in c2.args) for c2 in fn.calls())
                if hint:
                    continue
                pairs.append((c.bb, "combined with", sym.expr(c.args[0]), sym.expr(c.args[1]), c.line))
        for bb, how, a, b, line in pairs:
            la, lb = leaves_of(a) | _phi_names(a), leaves_of(b) | _phi_names(b)
            for spec, other, oe in ((la, lb, b), (lb, la, a)):
                if not any(is_spec(x) for x in spec) or any(is_spec(x) for x in other):
                    continue
                n += 1
                r.instances += 1
                r.nontrivial += 1
                bytes_ = sorted(x for x in other if x.startswith("len("))
                from ..mir import line_of
                ln = line if line is not None else line_of(fn, bb)
                r.sample({"fn": fn.qual, "line": ln, "spec": sorted(x for x in spec if is_spec(x)), "other": _short(oe)[:60],
                          "byte_length": bool(bytes_)})
                if bytes_:
                    r.add(Finding("R-WIDTH-UNITS", fn.qual, "bytes:" + ",".join(bytes_),
                                  f"a format spec's width/precision is {how} {', '.join(bytes_)}, a byte length: for text "
                                  f"with multi-byte characters the field is not padded to (or is cut below) the requested "
                                  f"number of characters", fn.file, ln))
    r.analysed = {"width_or_precision_uses": n}
    r.floor("uses of min_width / precision in size computations", n, 1)
    return r


# ---------------------------------------------------------------------------------------------
# R-BOUNDS-ORDER (C06, C15): an unwrapped with_bounds(start..end) has start <= end by construction

def rule_bounds_order(cx, tier):
    r = RuleResult("R-BOUNDS-ORDER", "`with_bounds(start..end)` returns None for an inverted range, so where its result is "
                                     "unwrapped the order of the bounds is visible in how they are computed: start is 0; or "
                                     "end is `start + n`; or end is the length of the string that start was subtracted from; "
                                     "or, for an alternative `len(input)` of end, a comparison `start <= len(input)` dominates")
    from .narrow import FnBounds, _alternatives, _relational_sub, _short, strip_phi
    from ..mir import op_base
    F = cx.F
    n = 0
    for fn in F.fns.values():
        if fn.derived or fn.crate.uname != "koto_runtime":
            continue
        du = cx.du(fn)
        fb = None
        for c in fn.calls():
            if not c.is_("Option::unwrap", "Option::expect") or not c.args:
                continue
            l = op_base(c.args[0])
            rr = du.root(l) if l is not None else None
            if rr is not None and rr[0] == "field":
                rr = rr[1]
            if rr is None or rr[0] != "call" or (rr[1].pretty or rr[1].short or "").rsplit("::", 1)[-1] != "with_bounds":
                continue
            wb = rr[1]
            if len(wb.args) < 2:
                continue
            d = du.single_def(op_base(wb.args[1])) if op_base(wb.args[1]) is not None else None
            if d is None or d[2] != "assign" or d[3][0] != "agg" or len(d[3][2]) != 2:
                continue
            n += 1
            r.instances += 1
            r.nontrivial += 1
            fb = fb or FnBounds(cx, fn)
            s_e, e_e = fb.sym.expr(d[3][2][0]), fb.sym.expr(d[3][2][1])
            ok, why = _ordered(fb, wb.bb, s_e, e_e)
            r.sample({"fn": cx.label(fn), "line": c.line, "start": _short(s_e)[:50], "end": _short(e_e)[:50], "ordered": ok,
                      "why": why})
            if ok is None:
                r.undecided.append({"fn": cx.label(fn), "line": c.line, "why": why})
            elif not ok:
                r.add(Finding("R-BOUNDS-ORDER", cx.label(fn), f"{_short(s_e)[:40]}..{_short(e_e)[:40]}",
                              f"`with_bounds({_short(s_e)[:60]}..{_short(e_e)[:60]}).unwrap()`: nothing in how the bounds are "
                              f"computed makes start <= end ({why}); an inverted range yields None and the unwrap panics",
                              fn.file, c.line))
    r.analysed = {"unwrapped_with_bounds_sites": n}
    r.floor("unwrapped with_bounds sites in koto_runtime", n, 4)
    return r


def _ordered(fb, site_bb, s_e, e_e):
    from .narrow import _alternatives, strip_phi, edge_side, _short

    def unc(x):
        while x[0] == "cast":
            x = x[1]
        return x
    s_e, e_e = unc(s_e), unc(e_e)
    if s_e[0] == "K" and s_e[1] == 0:
        return True, "start is 0"
    ks = strip_phi(s_e)
    bad = []
    opaque = []
    for alt in _alternatives(e_e):
        alt = unc(alt)
        if alt[0] == "add" and (strip_phi(unc(alt[1])) == ks or strip_phi(unc(alt[2])) == ks):
            continue                                   # end = start + n
        if alt[0] == "sub" and alt[1][0] == "add" and (strip_phi(unc(alt[1][1])) == ks or strip_phi(unc(alt[1][2])) == ks) \
                and alt[2][0] == "K" and alt[2][1] <= 1:
            # start + n - 1 with n >= 1 (a found '\\r' before the '\\n')
            continue
        if alt[0] == "L" and alt[1].startswith("len("):
            # start = len(S) - x
            if s_e[0] == "sub" and unc(s_e[1]) == alt:
                continue
            # a dominating comparison start <= len(S) / start < len(S)
            ok = False
            for (gb, dest, opn, le, re_, cty) in fb.gs:
                if not (gb == site_bb or fb.cfg.dominates(gb, site_bb)):
                    continue
                side = edge_side(fb.cx, fb.fn, fb.cfg, gb, dest, site_bb)
                l, rr = strip_phi(unc(le)), strip_phi(unc(re_))
                op = opn.lower()
                if (l, rr) == (ks, strip_phi(alt)) and ((op in ("le", "lt") and side == "true") or (op in ("gt", "ge") and side == "false")):
                    ok = True
                if (l, rr) == (strip_phi(alt), ks) and ((op in ("ge", "gt") and side == "true") or (op in ("lt", "le") and side == "false")):
                    ok = True
            if ok:
                continue
        if alt[0] == "L" and not alt[1].startswith(("len(", "idx(", "count(")):
            # a named local or a call result (`find(..).map_or(len, |i| start + i)`): its computation is not visible in
            # the expression tree, so nothing can be said either way
            opaque.append(_short(alt)[:50])
            continue
        bad.append(_short(alt)[:50])
    if bad:
        return False, "end can be " + " / ".join(bad) + f", unrelated to start = {_short(s_e)[:50]}"
    if opaque:
        return None, "end comes from " + " / ".join(opaque) + ", whose computation the expression tree does not show"
    return True, "every alternative of end is start + n, or a length that start does not exceed"


# ---------------------------------------------------------------------------------------------
# R-CHAR-UNITS (C20, C15): an exact size test that guards char-wise access counts chars, not bytes

def rule_char_units(cx, tier):
    r = RuleResult("R-CHAR-UNITS",
                   "where a string's size is tested for equality with a non-zero constant and the guarded code then reads "
                   "the same string char by char (`chars()`, `char_indices()`, `graphemes()`), the size is a char / "
                   "grapheme count: `len()` counts bytes, so `len() == 1` rejects every single non-ASCII character")
    from .narrow import Sym, guards, leaves_of
    import re
    CHARWISE = ("str::chars", "str::char_indices", "UnicodeSegmentation::graphemes", "str::graphemes")
    n_count = 0
    n_sites = 0
    for fn in cx.F.fns.values():
        if fn.derived or not fn.crate.uname.startswith("koto"):
            continue
        calls = fn.calls()
        charwise = [c for c in calls if c.short in CHARWISE or (c.short or "").endswith("::graphemes")]
        if not charwise:
            continue
        sym = Sym(cx, fn)
        cfg = cx.cfg(fn)
        for (gb, dest, opn, le, re_, cty) in guards(cx, fn, sym):
            if opn not in ("Eq", "Ne"):
                continue
            for a, b in ((le, re_), (re_, le)):
                if b[0] != "K" or not isinstance(b[1], int) or b[1] < 1:
                    continue
                for leaf in leaves_of(a):
                    m = re.match(r"(len|count)\((.*)\)$", leaf)
                    if not m:
                        continue
                    unit, what = m.group(1), m.group(2)
                    inner = re.match(r"(chars|graphemes|char_indices)\((.*)\)$", what)
                    subject = inner.group(2) if (unit == "count" and inner) else (what if unit == "len" else None)
                    if subject is None:
                        continue
                    # char-wise reads of the same string in code the test dominates
                    used = []
                    for c in charwise:
                        p = op_place(c.args[0]) if c.args else None
                        if p is None:
                            continue
                        if sym.canon(p[0], []).split(".")[0] != subject.split(".")[0] and sym.canon(p[0], []) != subject:
                            continue
                        if c.bb != gb and cfg.dominates(gb, c.bb) and c.bb in cfg.reachable_after(gb):
                            used.append(c)
                    if not used:
                        continue
                    # the string must be text (a byte length of a str / String / KString)
                    n_sites += 1
                    r.instances += 1
                    r.nontrivial += 1
                    r.sample({"fn": fn.qual, "test": f"{leaf} {opn} {b[1]}", "charwise_reads": len(used)})
                    if unit == "count":
                        n_count += 1
                        continue
                    r.add(Finding("R-CHAR-UNITS", fn.qual, f"bytes:{leaf}=={b[1]}",
                                  f"`{subject}` is read char by char under the test `{leaf} {'==' if opn == 'Eq' else '!='} "
                                  f"{b[1]}`, which counts bytes: a single non-ASCII character (2-4 bytes) takes the other "
                                  f"branch", fn.file, used[0].line))
    if n_sites == 0:
        # nothing is tested by size any more (`match (chars.next(), chars.next()) { (Some(c), None) => .. }` decides "exactly one
        # char" without a count): the rule has no subject, which is not a lost anchor -- it is a census, not a named function
        r.notes.append("no exact size test guards char-wise reads in the koto crates")
    r.analysed = {"sites": n_sites, "char_counted": n_count}
    return r
