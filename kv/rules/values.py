"""Value-model rules: R-HASHEQ, R-IMMUT, R-MAP-ORDER, R-FRESH (C14)."""
from ..engine import Broken, Finding, RuleResult, require
from ..mir import line_of, op_base, op_local, op_place, place_fields

DEREF = ("ops::deref::Deref::deref", "ops::deref::DerefMut::deref_mut")


def _closure_fns(cx, fn, depth=2):
    """fn plus the workspace functions it calls, to the given depth (closures of fn included)"""
    seen = {fn.name}
    frontier = [fn]
    for _ in range(depth):
        nxt = []
        for f in frontier:
            for c in f.calls():
                for t in cx.cg.targets(c):
                    tf = cx.F.fns.get(t)
                    if tf is not None and tf.name not in seen:
                        seen.add(tf.name)
                        nxt.append(tf)
            for cl in cx.F.closures_of(f) if f.kind != "Closure" else []:
                if cl.name not in seen:
                    seen.add(cl.name)
                    nxt.append(cl)
        frontier = nxt
    return [cx.F.fns[n] for n in seen]


def _cast_kinds(fns):
    out = set()
    for f in fns:
        for b in f.blocks:
            if b.cleanup:
                continue
            for st in b.stmts:
                if st[0] == "a" and st[2][0] == "cast" and st[2][1] in ("IntToFloat", "FloatToInt") \
                        and st[2][2][0] in ("c", "m"):      # of a value, not of a constant (`i64::MAX as f64`)
                    out.add(st[2][1])
    return out


def _impl_fn(cx, crate, self_short, trait, method):
    for f in cx.F.fns.values():
        if f.crate.uname == crate and f.impl_self == self_short and f.impl_trait == trait and f.method == method and not f.derived:
            return f
    return None


def rule_hasheq(cx, tier):
    r = RuleResult("R-HASHEQ", "Hash agrees with Eq wherever Eq identifies differently represented values: KNumber's hash "
                               "normalises across the int/float representations that eq compares across; ValueKey's hash "
                               "and eq delegate to the same component types; KString hashes and compares the same str "
                               "projection, with no extra prefix (so &str lookups through Equivalent find their keys)")
    # (a) KNumber
    eq = _impl_fn(cx, "koto_runtime", "KNumber", "PartialEq", "eq")
    hs = _impl_fn(cx, "koto_runtime", "KNumber", "Hash", "hash")
    require(eq is not None and hs is not None, "R-HASHEQ: hand-written PartialEq/Hash for KNumber not found")
    r.instances += 1
    r.nontrivial += 1
    eq_casts = _cast_kinds(_closure_fns(cx, eq))
    hs_casts = _cast_kinds(_closure_fns(cx, hs))
    # direction agreement: == looks at an integer through `as f64` (so 2^53 + 1 == 2^53 as a float); a hash that
    # never converts an integer that way writes the raw integer and separates keys that == identifies
    ok = (not eq_casts) or (bool(hs_casts) and eq_casts <= hs_casts)
    if not ok:
        r.add(Finding("R-HASHEQ", hs.qual, "normalise", f"KNumber::eq compares across representations "
                      f"({sorted(eq_casts)}: `1 == 1.0`, `9007199254740993 == 9007199254740992.0`) but KNumber::hash "
                      f"{'converts only ' + str(sorted(hs_casts)) if hs_casts else 'hashes each representation with no int/float conversion'}: "
                      f"numbers that compare equal get different hashes, so one key addresses two map entries", hs.file, hs.line))
    r.sample({"type": "KNumber", "eq_conversions": sorted(eq_casts), "hash_conversions": sorted(hs_casts), "ok": ok})
    # (b) ValueKey: component delegation agrees
    eq = _impl_fn(cx, "koto_runtime", "ValueKey", "PartialEq", "eq")
    hs = _impl_fn(cx, "koto_runtime", "ValueKey", "Hash", "hash")
    require(eq is not None and hs is not None, "R-HASHEQ: hand-written PartialEq/Hash for ValueKey not found")

    def component_types(fn, trait, method):
        out = set()
        for f in [fn] + cx.F.closures_of(fn):
            for c in f.calls():
                # direct impl calls, and impls reached through std's blanket impls for references (callback edges)
                for name in [c.resolved] + list(c.cb):
                    t = cx.F.fns.get(name)
                    if t is not None and t.impl_trait == trait and t.method == method and t.impl_self:
                        out.add(t.impl_self.lstrip("&"))
        return out
    et = component_types(eq, "PartialEq", "eq")
    ht = component_types(hs, "Hash", "hash")
    r.instances += 1
    r.nontrivial += 1
    if et != ht:
        r.add(Finding("R-HASHEQ", hs.qual, "components", f"ValueKey::eq compares components of types {sorted(et)} but "
                      f"ValueKey::hash hashes components of types {sorted(ht)}: some key kind is compared but not hashed "
                      f"(or hashed but never equal)", hs.file, hs.line))
    # no prefix: ValueKey::hash itself writes nothing to the hasher directly
    direct = [c for c in hs.calls() if (c.pretty or "").startswith("std::hash::Hasher::write") or c.is_("mem::discriminant")
              or "Discriminant" in (c.short or "")]
    r.instances += 1
    r.nontrivial += 1
    if direct:
        r.add(Finding("R-HASHEQ", hs.qual, "prefix", f"ValueKey::hash writes to the hasher directly ({direct[0].short}): "
                      f"a string key no longer hashes like the plain &str used for lookups through Equivalent<ValueKey>",
                      hs.file, direct[0].line))
    r.sample({"type": "ValueKey", "eq_components": sorted(et), "hash_components": sorted(ht), "direct_writes": len(direct)})
    # (c) KString: same projection
    eq = _impl_fn(cx, "koto_parser", "KString", "PartialEq", "eq")
    hs = _impl_fn(cx, "koto_parser", "KString", "Hash", "hash")
    require(eq is not None and hs is not None, "R-HASHEQ: hand-written PartialEq/Hash for KString not found")
    r.instances += 1
    r.nontrivial += 1
    eq_proj = {c.short for c in eq.calls() if c.short.startswith("koto_parser::KString::")}
    hs_proj = {c.short for c in hs.calls() if c.short.startswith("koto_parser::KString::")}
    hs_str = any(c.is_("Hash::hash") and "str" in c.short for c in hs.calls())
    if eq_proj != hs_proj or not hs_str:
        r.add(Finding("R-HASHEQ", hs.qual, "projection", f"KString::eq compares {sorted(eq_proj)} but KString::hash "
                      f"hashes {sorted(hs_proj)} (str hash used: {hs_str})", hs.file, hs.line))
    r.sample({"type": "KString", "eq_projection": sorted(eq_proj), "hash_projection": sorted(hs_proj), "hashes_str": hs_str})
    return r


# ---------------------------------------------------------------------------------------------
# R-IMMUT

CARRIERS = ("koto_memory::ptr_mut::KCell", "core::cell::RefCell", "core::cell::Cell", "core::cell::UnsafeCell",
            "std::sync::poison::rwlock::RwLock", "std::sync::poison::mutex::Mutex", "parking_lot", "core::sync::atomic",
            "core::cell::once::OnceCell", "std::sync::once_lock::OnceLock")
IMMUTABLE = ("koto_runtime::types::tuple::KTuple", "koto_parser::string::KString", "koto_runtime::types::range::KRange",
             "koto_parser::string_slice::StringSlice")
KVALUE = "koto_runtime::types::value::KValue"


def _walk_carriers(cx, adt_name, path, seen, out):
    a = cx.F.adts.get(adt_name)
    if a is None or adt_name in seen:
        return
    seen.add(adt_name)
    c = a["crate"]
    for v in a["variants"]:
        for f in v["fields"]:
            _walk_type(cx, c, f[1], path + [f"{adt_name.rsplit('::', 1)[-1]}.{f[0]}"], seen, out, 0)


def _walk_type(cx, c, ti, path, seen, out, depth):
    if depth > 8:
        return
    t = c.types[ti]
    k = t["k"]
    if k == "adt":
        name = c.defs[t["d"]]
        if name == KVALUE:
            return  # elements are values of their own (lists inside a tuple stay shared by design)
        if any(name.startswith(x) or name == x for x in CARRIERS):
            out.append((name, list(path)))
            return
        if name in cx.F.adts:
            _walk_carriers(cx, name, path, seen, out)
        for a in t.get("a", []):
            _walk_type(cx, c, a, path, seen, out, depth + 1)
    elif k in ("ref", "refmut", "ptr", "ptrmut", "slice", "array", "tuple"):
        for a in t.get("a", []):
            _walk_type(cx, c, a, path, seen, out, depth + 1)


def rule_immut(cx, tier):
    r = RuleResult("R-IMMUT", "tuples, strings and ranges never change once created: no interior-mutability carrier lies "
                              "between such a handle and its storage, and their modules contain no const-to-mut pointer "
                              "cast")
    for name in IMMUTABLE:
        require(name in cx.F.adts, f"R-IMMUT: {name} not found")
        r.instances += 1
        r.nontrivial += 1
        out = []
        _walk_carriers(cx, name, [], set(), out)
        if out:
            carrier, path = out[0]
            r.add(Finding("R-IMMUT", name, "carrier:" + carrier.rsplit("::", 1)[-1], f"{name.rsplit('::', 1)[-1]} "
                          f"reaches its storage through {carrier} (via {' -> '.join(path)}): shared storage could be "
                          f"mutated behind other handles", cx.F.adts[name]["file"], cx.F.adts[name]["line"]))
        r.sample({"type": name, "interior_mutability_carriers": [c for c, _ in out]})
    # no *const -> *mut casts in the modules of these types
    mods = ("koto_runtime::types::tuple", "koto_parser::string", "koto_parser::string_slice", "koto_runtime::types::range")
    n_fn = 0
    for fn in cx.F.fns.values():
        if not any(fn.name.startswith(m + "::") for m in mods):
            continue
        n_fn += 1
        for b in fn.blocks:
            if b.cleanup:
                continue
            for st in b.stmts:
                if st[0] == "a" and st[2][0] == "cast":
                    frm = fn.crate.types[st[2][4]]
                    to = fn.crate.types[st[2][3]]
                    if frm["k"] == "ptr" and to["k"] == "ptrmut":
                        from ..facts import loc_line
                        r.add(Finding("R-IMMUT", fn.qual, "const-to-mut", "a *const pointer is cast to *mut in the "
                                      "module of an immutable value type", fn.file, loc_line(st[3])))
    r.analysed = {"types": len(IMMUTABLE), "module_functions_scanned": n_fn}
    r.floor("functions in the immutable types' modules", n_fn, 45)
    return r


# ---------------------------------------------------------------------------------------------
# R-MAP-ORDER

# who may reorder a map's entries on purpose (one named function each)
REORDER_ALLOWED = {
    "koto_random::Xoshiro256PlusPlusRng::shuffle_inner": "random.shuffle(map): reordering is the operation's documented purpose",
}

ORDER_CHANGING = ("swap_remove", "swap_remove_index", "swap_remove_full", "swap_remove_entry", "swap_indices",
                  "move_index", "reverse", "pop", "retain", "drain", "split_off", "truncate", "shift_insert",
                  "insert_before", "swap_take")
SORTS = ("sort_by", "sort_keys", "sort_unstable_by", "sort_unstable_keys", "sort_by_cached_key", "sort_by_key",
         "sort_unstable_by_key")


def _is_value_map_recv(fn, call):
    if not call.args:
        return False
    s = fn.crate.tstr(call.arg_ty(0))
    return "IndexMap<" in s and "ValueKey" in s


def rule_map_order(cx, tier):
    r = RuleResult("R-MAP-ORDER", "maps keep insertion order: order-changing IndexMap operations are applied to a map's "
                                  "entries only by map.sort, and by the replace-at-index idiom (swap_remove_index; insert; "
                                  "swap_indices) in its complete form, guarded by a test that the inserted key is new")
    n_calls = 0
    for fn in cx.F.fns.values():
        if fn.crate.uname in ("koto_test_utils", "koto_derive"):
            continue
        calls = [c for c in fn.calls() if (c.pretty or "").startswith("indexmap::") and _is_value_map_recv(fn, c)]
        if not calls:
            continue
        n_calls += len(calls)
        label = cx.label(fn)
        if fn.qual in REORDER_ALLOWED:
            r.sample({"fn": label, "verdict": "allowed: " + REORDER_ALLOWED[fn.qual]})
            continue
        cfg = cx.cfg(fn)
        by = {}
        for c in calls:
            by.setdefault((c.pretty or "").rsplit("::", 1)[-1], []).append(c)
        for name, cs in by.items():
            if name in SORTS:
                for c in cs:
                    r.instances += 1
                    r.nontrivial += 1
                    if not (label.endswith("::sort") or "::sort::" in label):
                        r.add(Finding("R-MAP-ORDER", label, name, f"IndexMap::{name} reorders a map's entries outside "
                                      f"map.sort", fn.file, c.line))
                continue
            if name not in ORDER_CHANGING:
                continue
            for c in cs:
                r.instances += 1
                r.nontrivial += 1
                if name in ("swap_remove_index", "swap_indices"):
                    sr = by.get("swap_remove_index", [])
                    ins = by.get("insert", []) + by.get("insert_full", [])
                    sw = by.get("swap_indices", [])
                    complete = any(cfg.dominates(a.bb, b.bb) and cfg.dominates(b.bb, w.bb)
                                   for a in sr for b in ins for w in sw)
                    if not complete:
                        r.add(Finding("R-MAP-ORDER", label, name + ":incomplete", f"IndexMap::{name} is used without the "
                                      f"complete replace-at-index idiom (swap_remove_index; insert; swap_indices): the "
                                      f"entry order of the map changes", fn.file, c.line))
                        continue
                    if name == "swap_remove_index":
                        tests = [x for k in ("contains_key", "get_index_of", "get_full", "get") for x in by.get(k, [])]
                        guarded = any(cfg.dominates(t.bb, b.bb) for t in tests for b in ins)
                        if not guarded:
                            r.add(Finding("R-MAP-ORDER", label, "replace:key-not-new", "the replace-at-index idiom does "
                                          "not test that the inserted key is new: if the key already exists elsewhere in "
                                          "the map, insert() overwrites in place, the map is one entry short and "
                                          "swap_indices(i, len-1) runs past the end", fn.file, c.line))
                    continue
                if name in ("retain", "drain", "truncate", "split_off", "pop") :
                    # removing entries keeps the relative order of the rest
                    continue
                r.add(Finding("R-MAP-ORDER", label, name, f"IndexMap::{name} changes the order of a map's entries",
                              fn.file, c.line))
        r.sample({"fn": label, "indexmap_ops": sorted(by)}, limit=15)
    r.analysed = {"indexmap_calls_on_value_maps": n_calls}
    r.floor("IndexMap calls on ValueMap data", n_calls, 15)
    return r


# ---------------------------------------------------------------------------------------------
# R-FRESH: operations documented to build a new container never hand back a clone of an operand's handle

def rule_fresh(cx, tier):
    r = RuleResult("R-FRESH", "`+` on lists and koto.copy / deep_copy build new containers: the KList / KMap they return "
                              "is constructed from data (with_data / from_slice / KCell::from …), never a Clone of an "
                              "operand's shared handle")
    VM = "koto_runtime::KotoVm::"
    targets = [cx.need_fn(VM + "run_add")]
    for f in cx.F.fns.values():
        if cx.label(f) in ("koto_runtime::core_lib::koto::copy", "koto_runtime::core_lib::koto::deep_copy") or \
                f.qual == "koto_runtime::KValue::deep_copy":
            targets.append(f)
    r.floor("functions that must build fresh containers", len(targets), 3)
    for fn in targets:
        du = cx.du(fn)
        label = cx.label(fn)
        for c in fn.calls():
            if not c.is_("Clone::clone") or not c.args:
                continue
            t = cx.F.fns.get(c.resolved)
            if t is None or t.impl_self not in ("KList", "KMap"):
                continue
            r.instances += 1
            r.nontrivial += 1
            # does the cloned handle flow into the result (a KValue::List / KValue::Map aggregate)?
            d = c.dest[0]
            flows = False
            for b in fn.blocks:
                if b.cleanup:
                    continue
                for st in b.stmts:
                    if st[0] == "a" and st[2][0] == "agg" and st[2][1][0] == "adt" and st[2][1][2] in ("List", "Map"):
                        for o in st[2][2]:
                            l = op_base(o)
                            hops = 0
                            while l is not None and hops < 4:
                                if l == d:
                                    flows = True
                                    break
                                dd = du.single_def(l)
                                if dd is None or dd[2] != "assign" or dd[3][0] != "use":
                                    break
                                l = op_base(dd[3][1])
                                hops += 1
            # koto.copy of a list/map clones *data* (KList::clone is never what copy wants)
            if flows:
                r.add(Finding("R-FRESH", label, f"{t.impl_self}::clone", f"the result is built from a Clone of an operand's "
                              f"{t.impl_self} handle: the new value shares its storage with the operand, so mutating one "
                              f"changes the other", fn.file, c.line))
        r.sample({"fn": label})
    return r


# ---------------------------------------------------------------------------------------------
# R-REPLACE-ATOMIC (C04, C14): the multi-step replacement of a map entry is all-or-nothing

def rule_replace_atomic(cx, tier):
    r = RuleResult("R-REPLACE-ATOMIC", "the replace-at-index idiom on a map (swap_remove_index; insert; swap_indices) cannot be "
                                       "left half-done: from the removal no function exit -- in particular no `?` error exit -- "
                                       "is reachable without passing the final swap_indices, so an error that is thrown and "
                                       "caught leaves the map as it was")
    from ..mir import line_of
    n = 0
    for fn in cx.F.fns.values():
        if fn.crate.uname != "koto_runtime" or fn.derived:
            continue
        sr = [c for c in fn.calls() if (c.pretty or "").rsplit("::", 1)[-1] in ("swap_remove_index", "shift_remove_index")]
        if not sr:
            continue
        sw = {c.bb for c in fn.calls() if (c.pretty or "").rsplit("::", 1)[-1] == "swap_indices"}
        if not sw:
            # the order-preserving spelling (shift_remove_index; shift_insert / insert) is complete at the insertion
            sw = {c.bb for c in fn.calls() if (c.pretty or "").rsplit("::", 1)[-1] in ("shift_insert", "insert", "insert_full")
                  and any(c.bb in cx.cfg(fn).reachable_after(x.bb) for x in sr)}
        cfg = cx.cfg(fn)
        exits = set(cfg.exits)
        label = cx.label(fn)
        for c in sr:
            n += 1
            r.instances += 1
            r.nontrivial += 1
            p = cfg.find_path(c.bb, lambda b: b in exits, avoid=sw) if sw else None
            r.sample({"fn": label, "line": c.line, "uninterruptible": p is None and bool(sw)})
            if p is not None:
                r.add(Finding("R-REPLACE-ATOMIC", label, "interruptible", "the function can return (an error propagated with "
                              "`?`) after swap_remove_index has removed the old entry and before swap_indices has put the "
                              "new one in its place: a caught error leaves the map without the entry and with its last "
                              "entry moved", fn.file, c.line, [f"bb{b} {fn.file}:{line_of(fn, b)}" for b in p][-12:]))
    r.analysed = {"remove_by_index_sites": n}
    r.floor("swap_remove_index / shift_remove_index sites in koto_runtime", n, 1)
    return r

