"""Fact building (cargo +nightly check with the kotofacts driver) and loading.

The facts describe /repo's *current working tree*: a content hash over every *.rs, Cargo.toml and
Cargo.lock keys the cache, so any edit triggers a rebuild and identical trees share one build.
"""
import fcntl
import glob
import hashlib
import json
import os
import re
import shutil
import subprocess
import sys
import time

VERIF = os.path.dirname(os.path.dirname(os.path.abspath(__file__)))
REPO = os.environ.get("KV_REPO", "/repo")
CACHE = os.path.join(VERIF, ".cache")
DRIVER_DIR = os.path.join(VERIF, "kotofacts")
DRIVER = os.path.join(DRIVER_DIR, "target", "release", "kotofacts")

# cargo configurations analysed
CONFIGS = {
    # default features (rc), whole workspace, all lib+bin targets
    "rc": ["--workspace"],
    # the set `just test_arc` builds
    "arc": ["--no-default-features", "--features", "arc", "-p", "koto_memory", "-p", "koto_parser",
            "-p", "koto_bytecode", "-p", "koto_runtime", "-p", "koto"],
}
EXPECTED = {
    "rc": ["koto_memory", "koto_lexer", "koto_parser", "koto_bytecode", "koto_format", "koto_runtime",
           "koto_serde", "koto", "koto_json", "koto_yaml", "koto_toml", "koto_derive"],
    "arc": ["koto_memory", "koto_lexer", "koto_parser", "koto_bytecode", "koto_runtime", "koto"],
}


def tree_hash(repo=REPO):
    h = hashlib.sha256()
    files = []
    for root, dirs, fs in os.walk(repo):
        dirs[:] = [d for d in dirs if d not in ("target", ".git", "node_modules")]
        for f in fs:
            if f.endswith(".rs") or f in ("Cargo.toml", "Cargo.lock"):
                files.append(os.path.join(root, f))
    files.sort()
    for f in files:
        h.update(os.path.relpath(f, repo).encode())
        h.update(b"\0")
        try:
            with open(f, "rb") as fh:
                h.update(fh.read())
        except OSError:
            pass
        h.update(b"\0")
    # the driver itself is part of the key
    try:
        with open(os.path.join(DRIVER_DIR, "src", "main.rs"), "rb") as fh:
            h.update(fh.read())
    except OSError:
        pass
    return h.hexdigest()[:20]


def _sysroot():
    return subprocess.check_output(["rustc", "+nightly", "--print", "sysroot"], text=True).strip()


def ensure_driver(log=sys.stderr):
    src = os.path.join(DRIVER_DIR, "src", "main.rs")
    if os.path.exists(DRIVER) and os.path.getmtime(DRIVER) >= os.path.getmtime(src):
        return
    env = dict(os.environ, CARGO_NET_OFFLINE="true")
    r = subprocess.run(["cargo", "+nightly", "build", "--release", "--offline"], cwd=DRIVER_DIR, env=env,
                       stdout=subprocess.PIPE, stderr=subprocess.STDOUT, text=True)
    if r.returncode != 0 or not os.path.exists(DRIVER):
        log.write(r.stdout)
        raise RuntimeError("CHECK-BROKEN: cannot build the kotofacts driver")


def ensure_facts(cfg="rc", log=sys.stderr):
    """Return the directory holding the facts of /repo's current tree under configuration cfg."""
    os.makedirs(CACHE, exist_ok=True)
    with open(os.path.join(CACHE, "lock"), "w") as lockf:
        fcntl.flock(lockf, fcntl.LOCK_EX)
        ensure_driver(log)
        h = tree_hash()
        out = os.path.join(CACHE, "facts", f"{cfg}-{h}")
        if os.path.exists(os.path.join(out, "COMPLETE")):
            os.utime(out)
            return out
        t0 = time.time()
        tmp = out + ".tmp%d" % os.getpid()
        shutil.rmtree(tmp, ignore_errors=True)
        os.makedirs(tmp)
        target = os.path.join(CACHE, f"target-{cfg}")
        # cargo's freshness cache would skip the wrapper: forget the workspace members
        for d in glob.glob(os.path.join(target, "debug", ".fingerprint", "koto*")):
            shutil.rmtree(d, ignore_errors=True)
        env = dict(os.environ)
        env.update({
            "LD_LIBRARY_PATH": _sysroot() + "/lib",
            "KF_OUT": tmp,
            "RUSTFLAGS": "-Zmir-opt-level=0 -Zinline-mir=no -Awarnings",
            "RUSTC_WORKSPACE_WRAPPER": DRIVER,
            "CARGO_TARGET_DIR": target,
            "CARGO_NET_OFFLINE": "true",
        })
        env.pop("RUSTC_WRAPPER", None)
        cmd = ["cargo", "+nightly", "check", "--offline"] + CONFIGS[cfg]
        r = subprocess.run(cmd, cwd=REPO, env=env, stdout=subprocess.PIPE, stderr=subprocess.STDOUT, text=True)
        if r.returncode != 0:
            log.write(r.stdout[-6000:])
            shutil.rmtree(tmp, ignore_errors=True)
            raise RuntimeError(f"CHECK-BROKEN: cargo check failed for configuration {cfg} (tree does not compile?)")
        present = set(os.path.basename(f).split("-")[0] for f in glob.glob(os.path.join(tmp, "*.json")))
        missing = [c for c in EXPECTED[cfg] if c not in present]
        if missing:
            log.write(r.stdout[-3000:])
            shutil.rmtree(tmp, ignore_errors=True)
            raise RuntimeError(f"CHECK-BROKEN: no facts produced for crates {missing} ({cfg})")
        with open(os.path.join(tmp, "COMPLETE"), "w") as f:
            json.dump({"cfg": cfg, "hash": h, "build_s": round(time.time() - t0, 1), "cmd": " ".join(cmd)}, f)
        shutil.rmtree(out, ignore_errors=True)
        os.rename(tmp, out)
        _prune(os.path.join(CACHE, "facts"), keep=8)
        return out


def _prune(d, keep):
    ents = [os.path.join(d, e) for e in os.listdir(d)]
    ents = [e for e in ents if os.path.isdir(e)]
    ents.sort(key=lambda e: os.path.getmtime(e), reverse=True)
    for e in ents[keep:]:
        shutil.rmtree(e, ignore_errors=True)


# ------------------------------------------------------------------------------------------------
# Model


def _last_seg(defname):
    return defname.rsplit("::", 1)[-1]


_SHORT = {}
_IMPL_FOR = re.compile(r"<impl (.+) for (.+)>::(\w+)$")


def _strip_generics(p):
    """remove generic argument lists `::<..>` and `Name<..>` (bracket-aware); keep a leading `<T as Trait>`"""
    out = []
    i = 0
    n = len(p)
    while i < n:
        ch = p[i]
        if ch == "<":
            prev = out[-1] if out else ""
            is_generic = bool(out) and (prev.isalnum() or prev == "_" or prev == ":" or prev == "]")
            if is_generic and not (len(out) >= 1 and "".join(out[-3:]).endswith(" as")):
                depth = 0
                while i < n:
                    if p[i] == "<":
                        depth += 1
                    elif p[i] == ">" and (i == 0 or p[i - 1] != "-"):
                        depth -= 1
                        if depth == 0:
                            break
                    i += 1
                i += 1
                # drop a trailing `::` left from turbofish `::<..>`
                if out[-2:] == [":", ":"] and (i >= n or p[i:i + 2] != "::"):
                    pass
                continue
        out.append(ch)
        i += 1
    return "".join(out).replace("::::", "::")


def short_name(pretty):
    """`std::vec::Vec::<T, A>::push` -> `Vec::push`; `<std::vec::Vec<T> as std::iter::Extend<T>>::extend` ->
    `<Vec as Extend>::extend`; `core::mem::swap` -> `mem::swap`."""
    r = _SHORT.get(pretty)
    if r is not None:
        return r
    p = pretty
    m = _IMPL_FOR.search(p)
    if m:
        # `std::cmp::impls::<impl std::cmp::Ord for i64>::cmp` -> `<i64 as Ord>::cmp`
        p = f"<{m.group(2)} as {m.group(1)}>::{m.group(3)}"
    if p.startswith("<"):
        # qualified form: find the matching '>' of the leading '<'
        depth = 0
        end = -1
        for i, ch in enumerate(p):
            if ch == "<":
                depth += 1
            elif ch == ">" and p[i - 1] != "-":
                depth -= 1
                if depth == 0:
                    end = i
                    break
        inner = p[1:end]
        rest = p[end + 1:]
        rest = _strip_generics(rest).lstrip(":")
        # split inner at top-level " as "
        depth = 0
        cut = -1
        for i, ch in enumerate(inner):
            if ch == "<":
                depth += 1
            elif ch == ">" and inner[i - 1] != "-":
                depth -= 1
            elif depth == 0 and inner.startswith(" as ", i):
                cut = i
                break
        if cut >= 0:
            a = _strip_generics(inner[:cut]).strip()
            b = _strip_generics(inner[cut + 4:]).strip()
            pre = ""
            while a.startswith("&"):
                pre += "&"
                a = a[1:].lstrip()
                if a.startswith("mut "):
                    pre += "mut "
                    a = a[4:]
            r = f"<{pre}{a.rsplit('::', 1)[-1]} as {b.rsplit('::', 1)[-1]}>::{rest}"
        else:
            a = _strip_generics(inner).strip()
            r = f"{a.rsplit('::', 1)[-1]}::{rest}"
    else:
        q = _strip_generics(p)
        segs = [x for x in q.split("::") if x]
        r = "::".join(segs[-2:])
    _SHORT[pretty] = r
    return r


class Crate:
    def __init__(self, raw, path):
        self.raw = raw
        self.path = path
        self.name = raw["crate"]
        self.crate_types = raw["crate_types"]
        self.is_bin = "Executable" in self.crate_types
        # the CLI binary and the `koto` library share the crate name
        self.uname = "koto_cli" if (self.is_bin and self.name == "koto") else self.name
        self.defs = []
        for d in raw["defs"]:
            n = d[0]
            if d[2] and self.uname != self.name:
                n = self.uname + n[len(self.name):]
            self.defs.append(n)
        self.def_pretty = [d[1] for d in raw["defs"]]
        self.def_local = [d[2] for d in raw["defs"]]
        self.def_kind = [d[3] for d in raw["defs"]]
        self.types = raw["types"]
        self.features = raw["features"]
        self._tstr = {}

    def tstr(self, i):
        return self.types[i]["s"]

    def tkind(self, i):
        return self.types[i]["k"]

    def tdef(self, i):
        d = self.types[i].get("d")
        return self.defs[d] if d is not None else None

    def targs(self, i):
        return self.types[i].get("a", [])

    def short_ty(self, i):
        t = self.types[i]
        k = t["k"]
        if k == "adt":
            s = _last_seg(self.defs[t["d"]])
            return s
        if k == "ref":
            return "&" + self.short_ty(t["a"][0])
        if k == "refmut":
            return "&mut " + self.short_ty(t["a"][0])
        if k == "dyn":
            d = t.get("d")
            return "dyn " + (_last_seg(self.defs[d]) if d is not None else "?")
        return t["s"]


class Block:
    __slots__ = ("idx", "stmts", "term", "cleanup")

    def __init__(self, idx, raw):
        self.idx = idx
        self.stmts = raw["s"]
        self.term = raw["t"]
        self.cleanup = bool(raw.get("cleanup"))


def loc_line(loc):
    """A loc is an int line, or [outer_line, "mac<mac", inner_line] for expanded code."""
    if isinstance(loc, list):
        return loc[0]
    return loc


def loc_macros(loc):
    if isinstance(loc, list):
        return loc[1].split("<")
    return []


class Call:
    """A call terminator with names resolved."""
    __slots__ = ("fn", "bb", "raw", "callee", "resolved", "virtual", "args", "dest", "target", "loc",
                 "ga", "cb", "cl", "indirect", "rk", "pretty", "_short")

    def __init__(self, fn, bb, raw):
        c = fn.crate
        self.fn = fn
        self.bb = bb
        self.raw = raw
        f = raw.get("f")
        self.callee = c.defs[f] if f is not None else None
        r = raw.get("r")
        self.resolved = c.defs[r] if r is not None else self.callee
        self.virtual = bool(raw.get("v"))
        self.rk = raw.get("rk")
        self.args = raw["args"]
        self.dest = raw["dest"]
        self.target = raw["t"]
        self.loc = raw["loc"]
        self.ga = raw.get("ga", [])
        self.cb = [c.defs[i] for i in raw.get("cb", [])]
        self.cl = [c.defs[i] for i in raw.get("cl", [])]
        self.indirect = "ind" in raw
        best = r if r is not None else f
        self.pretty = c.def_pretty[best] if best is not None else None
        self._short = None

    @property
    def line(self):
        return loc_line(self.loc)

    @property
    def macros(self):
        return loc_macros(self.loc)

    @property
    def short(self):
        """qualified name of a workspace callee (`koto_runtime::KotoVm::run`), else a short std-style name
        (`Vec::push`, `<Vec as Extend>::extend`, `Try::branch` for unresolved trait methods)"""
        if self._short is None:
            F = self.fn.crate.facts
            t = F.fns.get(self.resolved) if self.resolved else None
            if t is not None:
                self._short = t.qual
            elif self.pretty is not None:
                self._short = short_name(self.pretty)
            else:
                self._short = "<indirect>"
        return self._short

    def is_(self, *names):
        """match the short name; `Trait::method` also matches the qualified form `<X as Trait>::method`"""
        s = self.short
        alt = None
        if " as " in s and ">::" in s and (s.startswith("<") or "::<" in s):
            alt = s[s.index(" as ") + 4:].replace(">::", "::", 1)
            # drop the trait's own generic arguments: `Add<&KNumber>::add` -> `Add::add`
            if "<" in alt.split("::")[0]:
                head, _, tail = alt.partition("::")
                alt = head.split("<")[0] + "::" + tail
        for n in names:
            if s == n or s.endswith("::" + n) or (alt is not None and (alt == n or alt.endswith("::" + n))):
                return True
        return False

    def ga_str(self, i=0):
        return self.fn.crate.tstr(self.ga[i]) if i < len(self.ga) else None

    def arg_ty(self, i):
        return self.raw["at"][i]

    def __repr__(self):
        return f"Call({self.resolved} @ {self.fn.qual}:{self.line})"


class Fn:
    def __init__(self, crate, raw):
        self.crate = crate
        self.raw = raw
        self.name = crate.defs[raw["def"]]
        self.kind = raw["kind"]
        self.file = raw["file"]
        self.line = raw["line"]
        self.end_line = raw["end_line"]
        self.exp = raw.get("exp", False)
        self.vis = raw.get("vis")
        self.unsafe = raw.get("unsafe", False)
        self.argc = raw["argc"]
        self.locals = raw["locals"]
        self.derived = raw.get("derived", False)
        self.root = crate.defs[raw["root"]] if "root" in raw else None
        self.parent = crate.defs[raw["parent"]] if "parent" in raw else None
        self.impl = crate.defs[raw["impl"]] if "impl" in raw else None
        self.trait_default_of = crate.defs[raw["trait"]] if "trait" in raw else None
        self.blocks = [Block(i, b) for i, b in enumerate(raw["blocks"])]
        self.qual = self.name  # refined by Facts once impls are known
        self.method = _last_seg(self.name)
        self.impl_trait = None
        self.impl_self = None
        self._calls = None

    # ---- helpers
    def local_ty(self, l):
        return self.locals[l][0]

    def local_tstr(self, l):
        return self.crate.tstr(self.locals[l][0])

    def local_name(self, l):
        return self.locals[l][1]

    def where(self, line=None):
        return f"{self.file}:{line if line is not None else self.line}"

    def calls(self):
        if self._calls is None:
            cs = []
            for b in self.blocks:
                if b.term[0] == "call" and not b.cleanup:
                    cs.append(Call(self, b.idx, b.term[1]))
            self._calls = cs
        return self._calls

    def call_at(self, bb):
        for c in self.calls():
            if c.bb == bb:
                return c
        return None

    def succs(self, bb, unwind=False):
        """Normal-control-flow successors of a block (unwind edges are not recorded in the facts)."""
        t = self.blocks[bb].term
        k = t[0]
        if k == "goto":
            return [t[1]]
        if k == "switch":
            return [x[1] for x in t[2]] + [t[3]]
        if k == "drop":
            return [t[2]]
        if k == "call":
            return [t[1]["t"]] if t[1]["t"] is not None else []
        if k == "assert":
            return [t[4]]
        if k == "other":
            return list(t[2])
        return []

    def __repr__(self):
        return f"Fn({self.qual})"


class Facts:
    def __init__(self, directory):
        self.dir = directory
        self.crates = {}
        self.fns = {}
        self.adts = {}
        self.traits = {}
        self.impls = {}
        self.hir_matches = {}
        seen_derive = False
        for path in sorted(glob.glob(os.path.join(directory, "*.json"))):
            with open(path) as f:
                raw = json.load(f)
            if raw["crate"] == "koto_derive":
                if seen_derive:
                    continue
                seen_derive = True
            c = Crate(raw, path)
            c.facts = self
            key = c.uname
            if key in self.crates:
                key = key + "#" + os.path.basename(path)
            self.crates[key] = c
            for a in raw["adts"]:
                name = c.defs[a["def"]]
                self.adts[name] = {"crate": c, **a, "name": name}
            for t in raw["traits"]:
                name = c.defs[t["def"]]
                self.traits[name] = {"crate": c, "name": name,
                                     "items": [(i[0], c.defs[i[1]], bool(i[2])) for i in t["items"]]}
            for im in raw["impls"]:
                name = c.defs[im["def"]]
                self.impls[name] = {
                    "crate": c, "name": name,
                    "trait": c.defs[im["trait"]] if im["trait"] is not None else None,
                    "targs": im["targs"], "self": im["self"], "derived": im["derived"],
                    "items": {i[0]: c.defs[i[1]] for i in im["items"]},
                    "file": im["file"], "line": im["line"], "exp": im.get("exp", False),
                }
            for fr in raw["fns"]:
                fn = Fn(c, fr)
                self.fns[fn.name] = fn
            for hm in raw["hir_matches"]:
                self.hir_matches[c.defs[hm[0]]] = hm[1]
        self._qualify()
        self.by_qual = {}
        for fn in self.fns.values():
            self.by_qual.setdefault(fn.qual, []).append(fn)

    def _qualify(self):
        # friendly qualified names: crate::Type::method, crate::<Type as Trait>::method
        for fn in self.fns.values():
            if fn.kind == "Closure":
                continue
            self._qual_of(fn)
        for fn in self.fns.values():
            if fn.kind == "Closure":
                root = self.fns.get(fn.root)
                suffix = fn.name[len(fn.root):] if fn.root and fn.name.startswith(fn.root) else "::" + fn.method
                fn.qual = (root.qual if root else fn.root) + suffix
                if root is not None:
                    fn.impl_trait = root.impl_trait
                    fn.impl_self = root.impl_self

    def _qual_of(self, fn):
        c = fn.crate
        if fn.impl and fn.impl in self.impls:
            im = self.impls[fn.impl]
            st = c.short_ty(im["self"])
            fn.impl_self = st
            if im["trait"]:
                tr = _last_seg(im["trait"])
                if im["targs"]:
                    tr += "<" + ",".join(c.short_ty(t) for t in im["targs"]) + ">"
                fn.impl_trait = _last_seg(im["trait"])
                fn.qual = f"{c.uname}::<{st} as {tr}>::{fn.method}"
            else:
                fn.qual = f"{c.uname}::{st}::{fn.method}"
        elif fn.trait_default_of:
            fn.qual = f"{c.uname}::{_last_seg(fn.trait_default_of)}::{fn.method}"
        else:
            fn.qual = fn.name

    # ---- lookups
    def fn(self, qual):
        """Unique function with this qualified name, else None."""
        l = self.by_qual.get(qual)
        if l and len(l) == 1:
            return l[0]
        return None

    def fns_named(self, qual):
        return self.by_qual.get(qual, [])

    def closures_of(self, fn):
        return [f for f in self.fns.values() if f.kind == "Closure" and f.root == fn.name]

    def crate_fns(self, crate_uname):
        return [f for f in self.fns.values() if f.crate.uname == crate_uname]

    def variant_by_discr(self, adt_name, value):
        a = self.adts.get(adt_name)
        if not a:
            if adt_name.endswith("option::Option"):
                return {0: "None", 1: "Some"}.get(value)
            if adt_name.endswith("result::Result"):
                return {0: "Ok", 1: "Err"}.get(value)
            if adt_name.endswith("ops::control_flow::ControlFlow"):
                return {0: "Continue", 1: "Break"}.get(value)
            return None
        for v in a["variants"]:
            if v["discr"] == value:
                return v["name"]
        return None


_loaded = {}


def load(cfg="rc", log=sys.stderr):
    d = ensure_facts(cfg, log)
    if d not in _loaded:
        _loaded[d] = Facts(d)
    return _loaded[d]
