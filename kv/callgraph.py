"""Whole-workspace call graph: static edges, CHA for virtual calls, callback edges through bounds."""
from .mir import strip_lifetimes


class CallGraph:
    def __init__(self, F):
        self.F = F
        self.edges = {}        # fn name -> set(fn name)
        self.sites = {}        # (caller, callee) -> first Call
        self.ext_calls = {}    # fn name -> set(external callee names)
        self._impl_index = None
        self._closure_sig = None
        self._build()

    # ---- CHA helpers
    def trait_impl_methods(self, trait_method_def):
        """all workspace implementations of a trait method given its def name `crate::path::Trait::method`"""
        if self._impl_index is None:
            idx = {}
            for im in self.F.impls.values():
                if im["trait"] is None:
                    continue
                for m, d in im["items"].items():
                    idx.setdefault((im["trait"], m), []).append(d)
            self._impl_index = idx
        trait, _, method = trait_method_def.rpartition("::")
        out = list(self._impl_index.get((trait, method), []))
        # a provided (default) method body is itself a target
        if trait_method_def in self.F.fns:
            out.append(trait_method_def)
        return out

    def fn_like_targets(self, call):
        """targets of a virtual Fn/FnMut/FnOnce call on a `dyn Fn(Args)`: closures / fns whose parameters match"""
        if self._closure_sig is None:
            sig = {}
            for f in self.F.fns.values():
                if f.kind == "Closure":
                    args = tuple(strip_lifetimes(f.local_tstr(i)) for i in range(2, f.argc + 1))
                else:
                    args = tuple(strip_lifetimes(f.local_tstr(i)) for i in range(1, f.argc + 1))
                sig.setdefault(args, []).append(f.name)
            self._closure_sig = sig
        c = call.fn.crate
        if len(call.ga) < 2:
            return []
        tup = c.types[call.ga[1]]
        args = tuple(strip_lifetimes(c.tstr(a)) for a in tup.get("a", []))
        return self._closure_sig.get(args, [])

    def _build(self):
        F = self.F
        for fn in F.fns.values():
            out = self.edges.setdefault(fn.name, set())
            ext = self.ext_calls.setdefault(fn.name, set())
            for c in fn.calls():
                tgts = self.targets(c)
                for t in tgts:
                    if t in F.fns:
                        out.add(t)
                        self.sites.setdefault((fn.name, t), c)
                if c.resolved and c.resolved not in F.fns:
                    ext.add(c.resolved)

    def targets(self, c):
        """possible workspace callees of one call site"""
        F = self.F
        out = []
        if c.indirect:
            return out
        if c.virtual:
            nm = c.callee or ""
            if nm.startswith("core::ops::function::Fn"):
                out.extend(self.fn_like_targets(c))
            else:
                out.extend(self.trait_impl_methods(nm))
        else:
            if c.resolved in F.fns:
                out.append(c.resolved)
            elif c.callee in F.fns:
                out.append(c.callee)
        ws_callee = F.fns.get(c.resolved) or F.fns.get(c.callee)
        if ws_callee is None or c.virtual:
            out.extend(c.cb)
        else:
            # The callee's body is in the workspace: of the methods its bounds *allow* it to call on the type
            # arguments, keep those it (or a generic workspace helper it calls) really calls through a type
            # parameter (unresolved trait-method calls).  Closures / fn items are kept: they are passed to be called.
            used = self.unresolved_trait_calls(ws_callee.name)
            for t in c.cb:
                tf = F.fns.get(t)
                if tf is None or tf.kind == "Closure":
                    out.append(t)
                    continue
                im = F.impls.get(tf.impl) if tf.impl else None
                if im is None or im["trait"] is None:
                    out.append(t)
                    continue
                if (im["trait"] + "::" + tf.method) in used:
                    out.append(t)
            out.extend(c.cl)
        # virtual trait methods reported through bounds → CHA
        extra = []
        for t in out:
            if t not in F.fns and F.traits.get(t.rpartition("::")[0]):
                extra.extend(self.trait_impl_methods(t))
        out.extend(extra)
        return out

    def unresolved_trait_calls(self, fname, depth=3):
        """trait-method defs a workspace function calls through a type parameter (directly or via workspace
        generic callees, depth-limited)"""
        memo = self.__dict__.setdefault("_unres_memo", {})
        key = (fname, depth)
        if key in memo:
            return memo[key]
        memo[key] = set()
        out = set()
        fn = self.F.fns.get(fname)
        if fn is not None:
            for c in fn.calls():
                if c.raw.get("unres") and c.callee:
                    out.add(c.callee)
                elif c.callee and c.resolved == c.callee and c.callee not in self.F.fns and \
                        self.F.traits.get(c.callee.rpartition("::")[0]) is not None and not c.virtual:
                    out.add(c.callee)
                elif depth > 0 and c.ga:
                    t = self.F.fns.get(c.resolved) or self.F.fns.get(c.callee)
                    if t is not None and t.name != fname:
                        out |= self.unresolved_trait_calls(t.name, depth - 1)
            # closures defined in the function belong to it
            if depth > 0:
                for cl in self.F.closures_of(fn) if fn.kind != "Closure" else []:
                    out |= self.unresolved_trait_calls(cl.name, depth - 1)
        memo[key] = out
        return out

    def reach_set(self, roots):
        """functions that can transitively reach any of `roots` (reverse reachability), roots included"""
        rev = {}
        for a, bs in self.edges.items():
            for b in bs:
                rev.setdefault(b, set()).add(a)
        seen = set(r for r in roots)
        work = list(seen)
        while work:
            x = work.pop()
            for p in rev.get(x, ()):
                if p not in seen:
                    seen.add(p)
                    work.append(p)
        return seen

    def closure_from(self, roots):
        """functions transitively reachable from roots (forward), roots included"""
        seen = set(roots)
        work = list(roots)
        while work:
            x = work.pop()
            for s in self.edges.get(x, ()):
                if s not in seen:
                    seen.add(s)
                    work.append(s)
        return seen

    def path(self, src, goal):
        """one call path src → … → g with g in goal (set), as a list of names, or None"""
        from collections import deque
        if src in goal:
            return [src]
        prev = {src: None}
        q = deque([src])
        while q:
            x = q.popleft()
            for s in self.edges.get(x, ()):
                if s in prev:
                    continue
                prev[s] = x
                if s in goal:
                    p = [s]
                    while prev[p[-1]] is not None:
                        p.append(prev[p[-1]])
                    return list(reversed(p))
                q.append(s)
        return None
