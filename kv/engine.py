"""Rule results, known findings, evidence files, replay files."""
import hashlib
import json
import os
import re
import time

from .facts import VERIF

KNOWN_FILE = os.path.join(VERIF, "known_findings.txt")
REPLAY_DIR = os.path.join(VERIF, "replay")
EVIDENCE_DIR = os.path.join(VERIF, "evidence")


class Broken(Exception):
    """An anchor or floor of a rule was lost: the check cannot decide (exit 2, CHECK-BROKEN)."""


class Finding:
    def __init__(self, rule, fn, slot, msg, file=None, line=None, path=None):
        self.rule = rule
        self.fn = fn            # qualified function label (no line numbers)
        self.slot = slot        # instance slot: callee / field / op / ...
        self.msg = msg
        self.file = file
        self.line = line
        self.path = path or []  # list of steps (strings or dicts) that constitute the violation

    @property
    def key(self):
        return f"{self.rule}|{self.fn}|{self.slot}".replace(" ", "_")

    def to_json(self):
        return {"rule": self.rule, "fn": self.fn, "slot": self.slot, "message": self.msg,
                "at": f"{self.file}:{self.line}" if self.file else None, "path": self.path, "key": self.key}


class RuleResult:
    def __init__(self, rule, clause):
        self.rule = rule
        self.clause = clause          # one sentence: what the rule decides
        self.instances = 0            # rule instances examined
        self.nontrivial = 0           # instances where the trigger really occurred
        self.findings = []
        self.undecided = []           # instances the rule could not decide (never raised)
        self.samples = []             # concrete instances with verdicts
        self.analysed = {}            # counts: functions, call sites, ...
        self.notes = []

    def sample(self, s, limit=12):
        if len(self.samples) < limit:
            self.samples.append(s)

    def add(self, finding):
        # one finding per key
        if all(f.key != finding.key for f in self.findings):
            self.findings.append(finding)

    def floor(self, what, got, need):
        if got < need:
            raise Broken(f"{self.rule}: {what}: found {got}, need at least {need} (anchor lost or code reshaped; "
                         f"re-confirm the rule instances by reading)")


def require(cond, msg):
    if not cond:
        raise Broken(msg)


def load_known():
    known = {}
    fixed = []
    if not os.path.exists(KNOWN_FILE):
        return known, fixed
    with open(KNOWN_FILE) as f:
        for line in f:
            line = line.strip()
            if not line or line.startswith("#"):
                continue
            if line.startswith("known:"):
                m = re.match(r"known:\s+property=(\S+)\s+key=(\S+)\s*(?:—|--)?\s*(.*)$", line)
                if m:
                    known.setdefault(m.group(1), {})[m.group(2)] = m.group(3)
            elif line.startswith("fixed:"):
                fixed.append(line)
    return known, fixed


def write_replay(prop, finding):
    os.makedirs(REPLAY_DIR, exist_ok=True)
    h = hashlib.sha1(finding.key.encode()).hexdigest()[:12]
    p = os.path.join(REPLAY_DIR, f"{prop}-{finding.rule}-{h}.json")
    with open(p, "w") as f:
        json.dump({"property": prop, **finding.to_json()}, f, indent=1)
    return p


def run_property(prop, tier, rule_fns, level="other", clause="", assumptions=None, seed=0, extra_cov=None,
                 technique=""):
    """Evaluate the rules of one property, print the verdict lines, write evidence. Returns exit code."""
    t0 = time.time()
    results = []
    broken = None
    for rf in rule_fns:
        try:
            r = rf(tier)
            if isinstance(r, list):
                results.extend(r)
            else:
                results.append(r)
        except Broken as e:
            broken = str(e)
            break
    if broken:
        print(f"CHECK-BROKEN property={prop} {broken}")
        _write_evidence(prop, tier, seed, level, clause, results, [], [], assumptions, time.time() - t0,
                        extra_cov, broken=broken)
        return 2
    known, _fixed = load_known()
    kn = known.get(prop, {})
    violations = []
    known_hits = []
    seen_keys = set()
    for r in results:
        for f in r.findings:
            if f.key in seen_keys:
                continue   # the same instance reported under a second build configuration
            seen_keys.add(f.key)
            if f.key in kn:
                known_hits.append(f)
            else:
                violations.append(f)
    for f in known_hits:
        print(f"KNOWN-FINDING: property={prop} {f.key} {f.msg} [{f.file}:{f.line}]")
    for f in violations:
        p = write_replay(prop, f)
        print(f"VIOLATION property={prop} replay={p}")
        print(f"  rule={f.rule} fn={f.fn} slot={f.slot} at {f.file}:{f.line}: {f.msg}")
        if os.environ.get("KV_VERBOSE"):
            for s in f.path[:40]:
                print(f"    - {s}")
    _write_evidence(prop, tier, seed, level, clause, results, violations, known_hits, assumptions,
                    time.time() - t0, extra_cov)
    n_inst = sum(r.instances for r in results)
    print(f"property={prop} tier={tier} rules={len(results)} instances={n_inst} "
          f"violations={len(violations)} known_findings={len(known_hits)} "
          f"undecided={sum(len(r.undecided) for r in results)} wall={time.time() - t0:.1f}s")
    return 1 if violations else 0


def _write_evidence(prop, tier, seed, level, clause, results, violations, known_hits, assumptions, wall,
                    extra_cov, broken=None):
    os.makedirs(EVIDENCE_DIR, exist_ok=True)
    n_inst = sum(r.instances for r in results)
    n_nontriv = sum(r.nontrivial for r in results)
    samples = []
    for r in results:
        for s in r.samples[:8]:
            samples.append({"rule": r.rule, **(s if isinstance(s, dict) else {"instance": s})})
    if not samples:
        samples = [{"note": "no instance evaluated"}]
    cov = {
        "explanation": clause,
        "evaluations": max(n_inst, 1),
        "distinct_nontrivial": n_nontriv,
        "rule": "static rules over rustc's type-checked MIR/HIR of /repo's current tree; an instance is one "
                "(rule, function, slot) obligation; non-trivial = the rule's trigger construct really occurs there",
        "samples": samples,
        "rules": [{
            "rule": r.rule, "decides": r.clause, "instances": r.instances, "nontrivial": r.nontrivial,
            "violations": len([f for f in r.findings if f in violations]),
            "known_findings": len([f for f in r.findings if f in known_hits]),
            "undecided": len(r.undecided), "undecided_samples": r.undecided[:6],
            "analysed": r.analysed, "notes": r.notes,
        } for r in results],
        "violations": [f.to_json() for f in violations],
        "known_findings": [f.key for f in known_hits],
    }
    n_undec = sum(len(r.undecided) for r in results)
    if level == "proof" and (violations or n_undec or broken):
        # an open obligation means the closed argument is not established on this run: report it as such
        level = "other"
        cov["explanation"] = "(proof obligations not all discharged on this run: %d violations, %d undecided) " % (
            len(violations), n_undec) + clause
    if level == "proof":
        cov["obligations"] = max(n_inst, 1)
        cov["discharged"] = n_inst - len(violations) - sum(len(r.undecided) for r in results)
        cov["checker_cmd"] = f"./check {prop} --tier {tier}"
        cov["trusted_base"] = ["rustc nightly MIR construction and Instance::try_resolve",
                               "kotofacts driver (fact extraction)", "kv rule engine (Python)"]
    if broken:
        cov["broken"] = broken
    if extra_cov:
        cov.update(extra_cov)
    ev = {
        "property_id": prop,
        "tier": tier,
        "seed": int(seed),
        "level": level,
        "coverage": cov,
        "assumptions": assumptions or [],
        "wall_s": round(wall, 2),
        "violations": len(violations),
    }
    with open(os.path.join(EVIDENCE_DIR, f"{prop}.json"), "w") as f:
        json.dump(ev, f, indent=1)
