"""CFG / def-use helpers over the MIR facts of one function."""
import re

from .facts import loc_line

_LT = re.compile(r"'[A-Za-z_][A-Za-z0-9_]*\s*")


def strip_lifetimes(s):
    return _LT.sub("", s).replace("& ", "&")


# ---- operands / places -----------------------------------------------------------------------

def op_place(op):
    """place of a copy/move operand, else None"""
    if op[0] in ("c", "m"):
        return op[1]
    return None


def op_local(op):
    """bare local of a copy/move operand (no projection), else None"""
    p = op_place(op)
    if p is not None and not p[1]:
        return p[0]
    return None


def op_base(op):
    """base local of a copy/move operand (projection ignored), else None"""
    p = op_place(op)
    return p[0] if p is not None else None


def op_const(op):
    return op[1] if op[0] == "k" else None


def op_int(op):
    c = op_const(op)
    if c is not None and "i" in c:
        return c["i"]
    return None


def place_fields(place):
    """list of field names along the projection"""
    return [p[2] for p in place[1] if isinstance(p, list) and p[0] == "f" and len(p) > 2]


def place_has_deref(place):
    return "*" in place[1]


def place_variant(place):
    for p in place[1]:
        if isinstance(p, list) and p[0] == "v":
            return p[1]
    return None


def rv_operands(rv):
    k = rv[0]
    if k in ("use", "repeat"):
        return [rv[1]]
    if k == "cast":
        return [rv[2]]
    if k == "bin":
        return [rv[2], rv[3]]
    if k == "un":
        return [rv[2]]
    if k == "agg":
        return list(rv[2])
    return []


def rv_places(rv):
    """places read by an rvalue (operands + ref/discr/len targets)"""
    out = [op_place(o) for o in rv_operands(rv)]
    k = rv[0]
    if k in ("ref", "rawptr"):
        out.append(rv[2])
    elif k == "discr":
        out.append(rv[1])
    return [p for p in out if p is not None]


# ---- CFG ---------------------------------------------------------------------------------------

class Cfg:
    def __init__(self, fn):
        self.fn = fn
        n = len(fn.blocks)
        self.n = n
        self.succ = [[s for s in fn.succs(i) if not fn.blocks[s].cleanup] if not fn.blocks[i].cleanup else [] for i in range(n)]
        self.pred = [[] for _ in range(n)]
        for i, ss in enumerate(self.succ):
            for s in ss:
                self.pred[s].append(i)
        self.reach = self._reach_from({0})
        self.exits = [i for i in self.reach if fn.blocks[i].term[0] == "ret"]
        self._dom = None
        self._pdom = None

    def _reach_from(self, starts, avoid=frozenset()):
        seen = set()
        work = [s for s in starts if s not in avoid]
        while work:
            b = work.pop()
            if b in seen:
                continue
            seen.add(b)
            for s in self.succ[b]:
                if s not in seen and s not in avoid:
                    work.append(s)
        return seen

    def reachable(self, starts, avoid=frozenset()):
        """blocks reachable from `starts` (inclusive) without entering any block in avoid"""
        return self._reach_from(set(starts), frozenset(avoid))

    def reachable_after(self, bb, avoid=frozenset()):
        """blocks reachable from the successors of bb"""
        return self._reach_from(set(self.succ[bb]), frozenset(avoid))

    def dominators(self):
        if self._dom is None:
            self._dom = _dominators(self.n, self.succ, self.pred, 0, self.reach)
        return self._dom

    def dominates(self, a, b):
        """does block a dominate block b"""
        dom = self.dominators()
        return b in dom and a in dom[b]

    def find_path(self, src, goal_pred, avoid=frozenset(), include_src_succs=True):
        """a path (list of blocks) from a successor of src to a block satisfying goal_pred that avoids `avoid`"""
        from collections import deque
        q = deque()
        prev = {}
        starts = self.succ[src] if include_src_succs else [src]
        for s in starts:
            if s not in avoid and s not in prev:
                prev[s] = None
                q.append(s)
        while q:
            b = q.popleft()
            if goal_pred(b):
                path = []
                while b is not None:
                    path.append(b)
                    b = prev[b]
                return list(reversed(path))
            for s in self.succ[b]:
                if s not in prev and s not in avoid:
                    prev[s] = b
                    q.append(s)
        return None

    def back_edges(self):
        dom = self.dominators()
        out = []
        for a in self.reach:
            for s in self.succ[a]:
                if s in dom.get(a, ()):
                    out.append((a, s))
        return out

    def natural_loop(self, tail, head):
        body = {head, tail}
        work = [tail]
        while work:
            b = work.pop()
            if b == head:
                continue
            for p in self.pred[b]:
                if p not in body:
                    body.add(p)
                    work.append(p)
        return body


def _dominators(n, succ, pred, entry, reach):
    order = []
    seen = set()

    def dfs(root):
        stack = [(root, iter(succ[root]))]
        seen.add(root)
        while stack:
            node, it = stack[-1]
            adv = False
            for s in it:
                if s not in seen:
                    seen.add(s)
                    stack.append((s, iter(succ[s])))
                    adv = True
                    break
            if not adv:
                order.append(node)
                stack.pop()

    dfs(entry)
    rpo = list(reversed(order))
    full = set(rpo)
    dom = {b: set(full) for b in rpo}
    dom[entry] = {entry}
    changed = True
    while changed:
        changed = False
        for b in rpo:
            if b == entry:
                continue
            ps = [p for p in pred[b] if p in dom]
            if not ps:
                continue
            new = set.intersection(*(dom[p] for p in ps)) | {b}
            if new != dom[b]:
                dom[b] = new
                changed = True
    return dom


# ---- def-use -----------------------------------------------------------------------------------

class DefUse:
    """Definitions per local: list of (bb, idx, kind, payload); kind 'assign' payload rvalue, 'call' payload Call."""

    def __init__(self, fn):
        self.fn = fn
        self.defs = {}
        calls = {c.bb: c for c in fn.calls()}
        for b in fn.blocks:
            if b.cleanup:
                continue
            for i, st in enumerate(b.stmts):
                if st[0] == "a":
                    place = st[1]
                    kind = "assign" if not place[1] else "partial"
                    self.defs.setdefault(place[0], []).append((b.idx, i, kind, st[2], st[3] if len(st) > 3 else None))
            c = calls.get(b.idx)
            if c is not None:
                d = c.dest
                kind = "call" if not d[1] else "partial"
                self.defs.setdefault(d[0], []).append((b.idx, len(b.stmts), kind, c, c.loc))

    def full_defs(self, local):
        return [d for d in self.defs.get(local, []) if d[2] in ("assign", "call")]

    def single_def(self, local):
        ds = self.defs.get(local, [])
        if len(ds) == 1 and ds[0][2] in ("assign", "call"):
            return ds[0]
        return None

    def root(self, local, through_calls=(), max_depth=40):
        """Follow single-definition chains of use/ref/cast/deref-copies back to an origin.

        Returns ('arg', n) | ('call', Call) | ('const', const) | ('rv', rvalue, bb) | ('multi', local) |
        ('field', base_origin, [field names]) for projections of an origin.
        `through_calls`: resolved-name suffixes of calls that are transparent (first argument flows through),
        e.g. Deref::deref, Clone::clone.
        """
        fields = []
        cur = local
        for _ in range(max_depth):
            if 1 <= cur <= self.fn.argc:
                o = ("arg", cur)
                return ("field", o, fields) if fields else o
            d = self.single_def(cur)
            if d is None:
                o = ("multi", cur)
                return ("field", o, fields) if fields else o
            if d[2] == "call":
                c = d[3]
                nm = c.resolved or ""
                nm2 = c.callee or ""
                if any(nm.endswith(s) or nm2.endswith(s) for s in through_calls) and c.args:
                    l = op_base(c.args[0])
                    if l is not None:
                        p = op_place(c.args[0])
                        fields = place_fields(p) + fields
                        cur = l
                        continue
                o = ("call", c)
                return ("field", o, fields) if fields else o
            rv = d[3]
            k = rv[0]
            if k == "use" or k == "cast":
                op = rv[1] if k == "use" else rv[2]
                if op[0] == "k":
                    o = ("const", op[1])
                    return ("field", o, fields) if fields else o
                p = op_place(op)
                fields = place_fields(p) + fields
                cur = p[0]
                continue
            if k in ("ref", "rawptr"):
                p = rv[2]
                fields = place_fields(p) + fields
                cur = p[0]
                continue
            o = ("rv", rv, d[0])
            return ("field", o, fields) if fields else o
        return ("multi", cur)


def exit_class(fn, du, cfg):
    """Classify each return block by the last assignment to _0 on the (unique) way in: 'err' | 'ok' | 'unknown'.

    Returns dict ret_bb -> set of classes (a return block shared by several paths may have several)."""
    # Walk backwards from each return to the nearest defs of _0.
    res = {}
    for rb in cfg.exits:
        classes = set()
        seen = set()
        work = [rb]
        while work:
            b = work.pop()
            if b in seen:
                continue
            seen.add(b)
            cls = _block_ret_class(fn, b)
            if cls is not None:
                classes.add(cls)
                continue
            for p in cfg.pred[b]:
                work.append(p)
        res[rb] = classes or {"unknown"}
    return res


def _block_ret_class(fn, b):
    """class of the last write to _0 in block b (None if b does not write _0)"""
    blk = fn.blocks[b]
    t = blk.term
    if t[0] == "call" and t[1]["dest"][0] == 0 and not t[1]["dest"][1]:
        c = fn.call_at(b)
        nm = (c.resolved or "")
        if nm.endswith("FromResidual::from_residual") or "from_residual" in nm:
            return "err"
        rty = fn.crate.tstr(fn.local_ty(0))
        if "Result<" in rty:
            return "call:" + nm
        return "call:" + nm
    for st in reversed(blk.stmts):
        if st[0] == "a" and st[1][0] == 0:
            if st[1][1]:
                continue
            rv = st[2]
            if rv[0] == "agg" and rv[1][0] == "adt":
                v = rv[1][2]
                if v == "Err":
                    return "err"
                if v in ("Ok", "Some", "None"):
                    return "ok" if v == "Ok" else v.lower()
            return "other"
    return None


def line_of(fn, bb):
    t = fn.blocks[bb].term
    if t[0] == "call":
        return loc_line(t[1]["loc"])
    if t[0] in ("switch", "drop", "assert"):
        return loc_line(t[-1])
    for st in fn.blocks[bb].stmts:
        if st[0] == "a" and len(st) > 3:
            return loc_line(st[3])
    return fn.line
