import argparse
import os
import sys

from . import engine
from .props import ASSUMPTIONS, PROPS


def main():
    ap = argparse.ArgumentParser()
    ap.add_argument("prop")
    ap.add_argument("--tier", default=os.environ.get("VERIF_TIER", "quick"))
    ap.add_argument("--replay")
    a = ap.parse_args()
    if a.prop not in PROPS:
        print(f"unknown property {a.prop}; known: {sorted(PROPS)}")
        return 2
    p = PROPS[a.prop]
    seed = int(os.environ.get("VERIF_SEED", "0") or 0)
    try:
        return engine.run_property(a.prop, a.tier, p["rules"], level=p.get("level", "other"), clause=p["clause"],
                                   assumptions=ASSUMPTIONS + p.get("assumptions", []), seed=seed,
                                   technique=p.get("technique", ""))
    except RuntimeError as e:
        print(str(e))
        return 2


if __name__ == "__main__":
    sys.exit(main())
