import argparse
import os
import sys

from . import engine
from .props import ASSUMPTIONS, PROPS


def _guard():
    """a runaway rule (state explosion on an unforeseen code shape) must end as CHECK-BROKEN, not as a hung check that eats
    the machine: cap the wall time of one check (the explorer caps its own memory, typestate.py)"""
    import signal

    def on_alarm(signum, frame):
        print("CHECK-BROKEN the check exceeded its wall-time limit (a rule did not terminate on this tree)")
        os._exit(2)
    signal.signal(signal.SIGALRM, on_alarm)
    signal.alarm(int(os.environ.get("KV_TIME_LIMIT_S", "2400")))


def main():
    _guard()
    ap = argparse.ArgumentParser()
    ap.add_argument("prop")
    ap.add_argument("--tier", default=os.environ.get("VERIF_TIER", "quick"))
    ap.add_argument("--replay")
    a = ap.parse_args()
    if a.prop not in PROPS:
        print(f"unknown property {a.prop}; known: {sorted(PROPS)}")
        return 2
    p = PROPS[a.prop]
    seed = int(os.environ.get("VERIF_SEED", "0") or 0)
    rules = list(p["rules"])
    extra = {}
    if a.tier == "thorough":
        # thorough = quick + (1) the same rules on the arc build of the crates that exist in both configurations
        from .props import arc_variants
        av = arc_variants(a.prop)
        rules += av
        extra["configurations"] = ["rc"] + (["arc"] if av or a.prop == "C19" else [])
    try:
        rc = engine.run_property(a.prop, a.tier, rules, level=p.get("level", "other"), clause=p["clause"],
                                 assumptions=ASSUMPTIONS + p.get("assumptions", []), seed=seed,
                                 technique=p.get("technique", ""), extra_cov=extra)
    except RuntimeError as e:
        print(str(e))
        return 2
    except MemoryError:
        print(f"CHECK-BROKEN property={a.prop} the check exceeded its memory limit (a rule's state space exploded on this tree)")
        return 2
    if a.tier == "thorough" and rc == 0 and not os.environ.get("KV_NO_SENSITIVITY"):
        # (2) sensitivity: every catalogued one-edit mutant of this property's rules, applied to a scratch worktree
        # outside /repo and /verif, must be reported by the rule it targets (else the check is broken, not the repo)
        import subprocess
        r = subprocess.run([os.path.join(os.path.dirname(os.path.dirname(os.path.abspath(__file__))), "selftest.py"),
                            "--property", a.prop], stdout=subprocess.PIPE, stderr=subprocess.STDOUT, text=True)
        tail = [l for l in r.stdout.splitlines() if l.startswith(("OK", "FAIL", "SKIP", "selftest"))]
        for l in tail:
            print("sensitivity: " + l[:200])
        if r.returncode != 0:
            print(f"CHECK-BROKEN property={a.prop} a catalogued mutant was not detected by its rule (see above)")
            return 2
    return rc


if __name__ == "__main__":
    sys.exit(main())
