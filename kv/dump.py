"""Developer tool: python3 -m kv.dump <qualified-name-substring> [--cfg rc|arc]  — pretty-print MIR facts."""
import sys

from . import facts
from .facts import loc_line, loc_macros


def fmt_place(fn, p):
    s = f"_{p[0]}"
    for e in p[1]:
        if e == "*":
            s = f"(*{s})"
        elif e[0] == "f":
            s = f"{s}.{e[2] if len(e) > 2 and e[2] else e[1]}"
        elif e[0] == "v":
            s = f"({s} as {e[1]})"
        elif e[0] == "i":
            s = f"{s}[_{e[1]}]"
        else:
            s = f"{s}[{e}]"
    return s


def fmt_op(fn, o):
    if o[0] == "c":
        return fmt_place(fn, o[1])
    if o[0] == "m":
        return "move " + fmt_place(fn, o[1])
    if o[0] == "k":
        k = o[1]
        if "fn" in k:
            return "fn:" + fn.crate.defs[k["fn"]]
        return "const " + str(k.get("d", k.get("i")))
    return "?"


def fmt_rv(fn, rv):
    k = rv[0]
    if k == "use":
        return fmt_op(fn, rv[1])
    if k == "ref":
        return f"&{'mut ' if rv[1] == 'mut' else ''}{fmt_place(fn, rv[2])}"
    if k == "rawptr":
        return f"&raw {fmt_place(fn, rv[2])}"
    if k == "cast":
        return f"{fmt_op(fn, rv[2])} as {fn.crate.tstr(rv[3])} ({rv[1]})"
    if k == "bin":
        return f"{rv[1]}({fmt_op(fn, rv[2])}, {fmt_op(fn, rv[3])})"
    if k == "un":
        return f"{rv[1]}({fmt_op(fn, rv[2])})"
    if k == "discr":
        return f"discriminant({fmt_place(fn, rv[1])})"
    if k == "agg":
        kind = rv[1]
        ops = ", ".join(fmt_op(fn, o) for o in rv[2])
        if kind[0] == "adt":
            return f"{fn.crate.defs[kind[1]].rsplit('::', 1)[-1]}::{kind[2]}{{{ops}}}"
        if kind[0] == "closure":
            return f"closure {fn.crate.defs[kind[1]]}[{ops}]"
        return f"{kind[0]}({ops})"
    return str(rv)


def dump(fn, out=sys.stdout):
    w = out.write
    w(f"fn {fn.qual}  [{fn.name}]  {fn.file}:{fn.line}-{fn.end_line} kind={fn.kind} vis={fn.vis} argc={fn.argc}\n")
    for i, l in enumerate(fn.locals):
        w(f"  let _{i}: {fn.crate.tstr(l[0])}{'  // ' + l[1] if l[1] else ''}\n")
    for b in fn.blocks:
        w(f" bb{b.idx}{' (cleanup)' if b.cleanup else ''}:\n")
        for st in b.stmts:
            if st[0] == "a":
                m = loc_macros(st[3])
                w(f"    {fmt_place(fn, st[1])} = {fmt_rv(fn, st[2])}   // L{loc_line(st[3])}{' ' + '<'.join(m) if m else ''}\n")
            else:
                w(f"    {st}\n")
        t = b.term
        if t[0] == "call":
            c = t[1]
            crate = fn.crate
            name = crate.defs[c["f"]] if "f" in c else "INDIRECT " + fmt_op(fn, c["ind"])
            if "r" in c:
                name += " => " + crate.defs[c["r"]]
            if c.get("v"):
                name += " [virtual]"
            ga = "<" + ", ".join(crate.tstr(g) for g in c.get("ga", [])) + ">" if c.get("ga") else ""
            args = ", ".join(fmt_op(fn, a) for a in c["args"])
            cb = "  cb=" + ",".join(crate.defs[x] for x in c["cb"]) if c.get("cb") else ""
            m = loc_macros(c["loc"])
            w(f"    {fmt_place(fn, c['dest'])} = {name}{ga}({args}) -> bb{c['t']}   // L{loc_line(c['loc'])}{' ' + '<'.join(m) if m else ''}{cb}\n")
        elif t[0] == "switch":
            w(f"    switch {fmt_op(fn, t[1])} {[(v, 'bb%d' % bb) for v, bb in t[2]]} else bb{t[3]}  // L{loc_line(t[5])}\n")
        elif t[0] == "drop":
            w(f"    drop({fmt_place(fn, t[1])}: {fn.crate.tstr(t[3])}) -> bb{t[2]}\n")
        elif t[0] == "assert":
            w(f"    assert {t[1]} {fmt_op(fn, t[2])}=={t[3]} ops=[{', '.join(fmt_op(fn, o) for o in t[5])}] -> bb{t[4]}  // L{loc_line(t[6])}\n")
        else:
            w(f"    {t}\n")


def main():
    cfg = "rc"
    args = sys.argv[1:]
    if "--cfg" in args:
        i = args.index("--cfg")
        cfg = args[i + 1]
        del args[i:i + 2]
    F = facts.load(cfg)
    pat = args[0]
    exact = [f for f in F.fns.values() if f.qual == pat]
    hits = exact or [f for f in F.fns.values() if pat in f.qual or pat in f.name]
    if "--list" in args:
        for f in hits:
            print(f.qual, f.name, f.where())
        return
    for f in hits[:6]:
        dump(f)
    if len(hits) > 6:
        print(f"... {len(hits)} matches")
    if "--hir" in args:
        for f in hits[:6]:
            for m in F.hir_matches.get(f.name, []):
                print(f"match @L{m['line']} scrut={m['scrut']}")
                for a in m["arms"]:
                    print(f"   {a[0]}  IF {a[1]}  => {a[3][:80]}")


if __name__ == "__main__":
    main()
