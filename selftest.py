#!/usr/bin/env python3
"""Developer self-test: apply one-edit mutants to a scratch worktree of /repo (outside /repo and /verif), run the
property checks against it (KV_REPO), and require that the expected rule fires on the mutated instance.

usage: ./selftest.py [name-substring ...]        (no args: all mutants)
The scratch worktree is removed afterwards.  Mutants that do not apply (anchor text gone) are reported as SKIP.
"""
import glob
import json
import os
import re
import shutil
import subprocess
import sys
import tempfile

VERIF = os.path.dirname(os.path.abspath(__file__))

# (name, property, expected rule, expected fn substring, file, old, new)
MUTANTS = [
    ("display-error-replaced", "C08", "R-ERR-DISCARD", "run_display", "crates/runtime/src/vm.rs",
     "                let mut display_context = DisplayContext::with_vm(self);\n                // Errors come from `@display` functions of contained values, so they're passed on\n                // as they are (a thrown value stays catchable, a timeout stays uncatchable).\n                other.display(&mut display_context)?;\n                self.set_register(result, display_context.result().into());\n                Ok(())\n",
     "                let mut display_context = DisplayContext::with_vm(self);\n                match other.display(&mut display_context) {\n                    Ok(_) => {\n                        self.set_register(result, display_context.result().into());\n                        Ok(())\n                    }\n                    Err(_) => runtime_error!(\"failed to get display value\"),\n                }\n"),
    ("try-count-popped-early", "C05", "R-TRY-COUNT", "compile_try_expression", "crates/bytecode/src/compiler.rs",
     "        self.frame_mut().push_try_block();\n        self.compile_node(*try_block, ctx.with_register(try_result_register))?;\n        self.frame_mut().pop_try_block();\n",
     "        self.frame_mut().push_try_block();\n        self.frame_mut().pop_try_block();\n        self.compile_node(*try_block, ctx.with_register(try_result_register))?;\n"),
    ("unwind-writes-result", "C04", "R-UNWIND-NO-RESULT", "pop_call_stack_on_error", "crates/runtime/src/vm.rs",
     "                    if let [.., caller, _] = self.call_stack.as_mut_slice() {\n                        caller.return_value_register = None;\n                    }\n",
     ""),
    ("regs-run-early-return", "C07", "R-REGS", "KotoVm::run", "crates/runtime/src/vm.rs",
     "        let result = self.execute_instructions();\n        if result.is_err() {\n            self.pop_frame(KValue::Null)?;\n        }\n\n        // Reset the register stack",
     "        let result = self.execute_instructions();\n        if result.is_err() {\n            self.pop_frame(KValue::Null)?;\n            return result;\n        }\n\n        // Reset the register stack"),
    ("frames-drop-pop", "C07", "R-FRAMES", "get_overridden_op_result", "crates/runtime/src/vm.rs",
     "            self.frame_mut().execution_barrier = true;\n            let result = self.execute_instructions();\n            if result.is_err() {\n                self.pop_frame(KValue::Null)?;\n            }\n            result\n        };\n\n        self.truncate_registers(result_register);\n        result\n    }",
     "            self.frame_mut().execution_barrier = true;\n            let result = self.execute_instructions();\n            result\n        };\n\n        self.truncate_registers(result_register);\n        result\n    }"),
    ("import-question-mark", "C18", "R-IMPORT", "run_import", "crates/runtime/src/vm.rs",
     "        let importer_exports = self.exports.clone();\n        self.exports = KMap::default();\n",
     "        let importer_exports = self.exports.clone();\n        self.exports = KMap::default();\n        self.context.loader.borrow_mut().compile_module(&import_name, None)?;\n"),
    ("timeout-poll-skipped", "C08", "R-TIMEOUT-POLL", "execute_instructions", "crates/runtime/src/vm.rs",
     "            if let Some(timeout) = timeout.as_mut()\n                && timeout.check_for_timeout()\n            {",
     "            if let Some(timeout) = timeout.as_mut()\n                && !matches!(instruction, Instruction::Jump { .. })\n                && timeout.check_for_timeout()\n            {"),
    ("exec-state-left-active", "C07", "R-EXEC-STATE", "execute_instructions", "crates/runtime/src/vm.rs",
     "                Ok(ControlFlow::Yield(value)) => {\n                    self.execution_state = ExecutionState::Suspended;\n",
     "                Ok(ControlFlow::Yield(value)) => {\n"),
    ("span-early-return", "C12", "R-SPAN", "compile_check_type", "crates/bytecode/src/compiler.rs",
     "                let jump_placeholder = self.push_offset_placeholder();\n                self.pop_span();\n                Ok(jump_placeholder)",
     "                let jump_placeholder = self.push_offset_placeholder();\n                if *allow_null {\n                    return Ok(jump_placeholder);\n                }\n                self.pop_span();\n                Ok(jump_placeholder)"),
    ("span-loop-push", "C12", "R-SPAN", "compile_match_arm", "crates/bytecode/src/compiler.rs",
     "            self.pop_span(); // arm node\n        }",
     "            if is_last_alternative {\n                self.pop_span(); // arm node\n            }\n        }"),
    ("placeholder-match-end-dropped", "C03", "R-PLACEHOLDER", "compile_match_arm", "crates/bytecode/src/compiler.rs",
     "        for jump_placeholder in jumps.match_end.iter() {\n            self.update_offset_placeholder(*jump_placeholder)?;\n        }\n",
     ""),
    ("placeholder-if-jump-unpatched", "C03", "R-PLACEHOLDER", "compile_if", "crates/bytecode/src/compiler.rs",
     "        if let Some(if_jump_ip) = if_jump_ip {\n            self.update_offset_placeholder(if_jump_ip)?;\n        }\n",
     "        if let Some(_if_jump_ip) = if_jump_ip {\n        }\n"),
    ("placeholder-early-ok", "C03", "R-PLACEHOLDER", "compile_switch", "crates/bytecode/src/compiler.rs",
     "            if let Some(jump_placeholder) = arm_end_jump_placeholder {\n                self.update_offset_placeholder(jump_placeholder)?;\n            }\n",
     "            if let Some(jump_placeholder) = arm_end_jump_placeholder {\n                if last_arm_is_else {\n                    self.update_offset_placeholder(jump_placeholder)?;\n                }\n            }\n"),
    ("jump-as-u16-again", "C05", "R-JUMP-CHECKED", "update_offset_placeholder", "crates/bytecode/src/compiler.rs",
     "        let offset = self.bytes.len() - offset_ip - 2; // -2 bytes for u16\n        match u16::try_from(offset) {\n            Ok(offset_u16) => {",
     "        let offset = self.bytes.len() - offset_ip - 2; // -2 bytes for u16\n        match Ok::<u16, ()>(offset as u16) {\n            Ok(offset_u16) => {"),
    ("enc-extra-operand", "C05", "R-ENC", "compile_node", "crates/bytecode/src/compiler.rs",
     "                    self.push_op(SetNull, &[result]);\n                }\n                result\n            }\n            Node::Nested",
     "                    self.push_op(SetNull, &[result, 0]);\n                }\n                result\n            }\n            Node::Nested"),
    ("enc-reader-shorter", "C05", "R-ENC", "", "crates/bytecode/src/instruction_reader.rs",
     "            Op::RangeTo => RangeTo {\n                register: byte_a,\n                end: get_u8!(),\n            },",
     "            Op::RangeTo => RangeTo {\n                register: byte_a,\n                end: byte_a,\n            },"),
    ("enc-var-as-byte", "C05", "R-ENC", "compile_assert_type", "crates/bytecode/src/compiler.rs",
     "                    self.push_op(op, &[value_register]);\n                    self.push_var_u32((*type_index).into());\n\n                    if span.is_some() {",
     "                    self.push_op(op, &[value_register, u32::from(*type_index) as u8]);\n\n                    if span.is_some() {"),
    ("iter-copy-clone", "C13", "R-ITER-COPY", "Take", "crates/runtime/src/core_lib/iterator/adaptors.rs",
     "impl KotoIterator for Take {\n    fn make_copy(&self) -> Result<KIterator> {\n        let result = Self {\n            iter: self.iter.make_copy()?,",
     "impl KotoIterator for Take {\n    fn make_copy(&self) -> Result<KIterator> {\n        let result = Self {\n            iter: self.iter.clone(),"),
    ("indent-class-changed", "C10", "R-INDENT", "", "crates/parser/src/parser.rs",
     "            None => self.consume_token_and_error(ExpectedIndentation::WhileBody),",
     "            None => self.consume_token_and_error(SyntaxError::UnexpectedToken),"),
    ("indent-chain-stringified", "C10", "R-INDENT-CHAIN", "", "crates/koto/src/error.rs",
     "            RuntimeError::CompileError(error) => Self::from(error),\n",
     "            RuntimeError::CompileError(error) => Self::StringError(error.to_string()),\n"),
    ("fmt-field-unread", "C11", "R-FMT-FIELDS", "", "crates/format/src/format.rs",
     "    if let Some(precision) = options.precision {\n        result.push_str(&format!(\".{precision}\"));\n    }\n",
     ""),
    ("tc-flag-second-reader", "C16", "R-TC-FLAG", "compile_check_type", "crates/bytecode/src/compiler.rs",
     "                self.push_span(type_node, ctx.ast);\n\n                let op = if *allow_null {\n                    Op::CheckOptionalType",
     "                if self.settings.enable_type_checks {\n                    self.push_span(type_node, ctx.ast);\n                } else {\n                    self.push_span(type_node, ctx.ast);\n                    self.debug_info.push(self.bytes.len() as u32, self.span());\n                }\n\n                let op = if *allow_null {\n                    Op::CheckOptionalType"),
    ("num-wrap-plain-add", "C01", "R-NUM-WRAP", "Add", "crates/runtime/src/types/number.rs",
     "number_op!(Add, add, +, wrapping_add);", "number_op!(Add, add, +, saturating_add);"),
    ("obj-default-ok-null", "C17", "R-OBJ-DEFAULTS", "index", "crates/runtime/src/types/object.rs",
     "        unimplemented_error(\"@index\", self.type_string())", "        Ok(KValue::Null)"),
    ("unsafe-bounds-unvalidated", "C15", "R-UNSAFE-BOUNDS", "with_bounds", "crates/parser/src/string_slice.rs",
     "        if self.data.get(new_bounds.clone()).is_some() {\n            try_from_range(&new_bounds)",
     "        if new_bounds.end <= self.data.len() {\n            try_from_range(&new_bounds)"),
    ("arc-cfg-branch-in-vm", "C19", "R-BUILD-DIFF", "register_index", "crates/runtime/src/vm.rs",
     "    fn register_index(&self, register: u8) -> usize {\n        self.register_base + register as usize\n    }",
     "    fn register_index(&self, register: u8) -> usize {\n        if cfg!(feature = \"arc\") {\n            return self.register_base.saturating_add(register as usize);\n        }\n        self.register_base + register as usize\n    }"),
    ("catch-restore-registers-gone", "C04", "R-CATCH-RESTORE", "execute_instructions", "crates/runtime/src/vm.rs",
     "                        self.registers\n                            .resize(self.min_frame_registers, KValue::Null);\n\n                        self.set_register(catch_point.error_register, catch_value);",
     "                        self.set_register(catch_point.error_register, catch_value);"),
    ("cursor-size-hint-unchecked", "C13", "R-CURSOR", "Split", "crates/runtime/src/core_lib/string/iterators.rs",
     "impl Iterator for Split {\n    type Item = Output;\n",
     "impl Split {\n    #[allow(dead_code)]\n    fn remaining(&self) -> usize {\n        self.input.len() - self.start\n    }\n}\n\nimpl Iterator for Split {\n    type Item = Output;\n"),
    ("slice-tail-assumed-newline", "C06", "R-SLICE-TAIL", "read_line", "crates/runtime/src/core_lib/io.rs",
     "                    let line = result.strip_suffix('\\n').unwrap_or(&result);\n                    line.strip_suffix('\\r').unwrap_or(line).into()",
     "                    let newline_bytes = if result.ends_with(\"\\r\\n\") { 2 } else { 1 };\n                    result[..result.len() - newline_bytes].into()"),
    ("column-as-byte-offset-in-cli", "C11", "R-COLUMN-BYTES", "format_source_excerpt", "crates/parser/src/error.rs",
     "                excerpt_lines.first().unwrap(),\n            );",
     "                &excerpt_lines.first().unwrap()[..(end.column as usize).min(excerpt_lines.first().unwrap().len())],\n            );"),
    ("stale-index-in-retain", "C06", "R-STALE-INDEX", "list::retain", "crates/runtime/src/core_lib/list.rs",
     "                        let Some(value) = l.data().get(read_index).cloned() else {\n                            break;\n                        };",
     "                        let value = l.data()[read_index].clone();"),
    ("func-skip-unused-literal-inline", "C05", "R-FUNC-SKIP", "compile_function", "crates/bytecode/src/compiler.rs",
     "            // The function is unused, so its body needs to be jumped over\n            self.push_op(Jump, &[]);\n            Some(self.push_offset_placeholder())",
     "            None"),
    ("frame-return-decided-by-state", "C05", "R-FRAME-RETURN", "compile_frame", "crates/bytecode/src/compiler.rs",
     "            if !last_expression_is_return {",
     "            if !(last_expression_is_return && self.span_stack.len() > 1) {"),
    ("conv-unwrap-second-digit-untested", "C06", "R-CONV-UNWRAP", "escape_string_character", "crates/parser/src/parser.rs",
     "                    Some(c2) if c2.is_ascii_hexdigit() => {",
     "                    Some(c2) if c1.is_ascii_hexdigit() => {"),
    ("try-exit-continue-forgets-try-end", "C04", "R-TRY-EXIT", "compile_node", "crates/bytecode/src/compiler.rs",
     "                    self.compile_try_ends_for_loop_exit();\n                    self.push_jump_back_op(JumpBack, &[], loop_start_ip)?;",
     "                    self.push_jump_back_op(JumpBack, &[], loop_start_ip)?;"),
    ("err-kind-stringified-again", "C08", "R-ERR-KIND", "run_iterator_next", "crates/runtime/src/vm.rs",
     "                        Some(KIteratorOutput::Error(error)) => {\n                            return Err(error);\n                        }",
     "                        Some(KIteratorOutput::Error(error)) => {\n                            return runtime_error!(error.to_string());\n                        }"),
    # ---- R-BUILDER-BAL
    ("builder-string-finish-conditional", "C05", "R-BUILDER-BAL", "compile_string", "crates/bytecode/src/compiler.rs",
     "                        if let Some(result_register) = result.register {\n                            self.push_op(Op::StringFinish, &[result_register]);\n                        }",
     "                        if let Some(result_register) = result.register {\n                            if nodes.len() > 2 {\n                                self.push_op(Op::StringFinish, &[result_register]);\n                            }\n                        }"),
    ("builder-sequence-early-return", "C05", "R-BUILDER-BAL", "compile_multi_assign", "crates/bytecode/src/compiler.rs",
     "                let temp_register = self.push_register()?;\n\n                for i in 0..nodes_len as u8 {",
     "                let temp_register = self.push_register()?;\n                if nodes_len == 0 {\n                    return Ok(result);\n                }\n\n                for i in 0..nodes_len as u8 {"),
    ("builder-try-end-dropped", "C05", "R-BUILDER-BAL", "compile_try_expression", "crates/bytecode/src/compiler.rs",
     "        self.push_op_without_span(TryEnd, &[dummy_byte]);\n",
     "        if finally_block.is_some() {\n            self.push_op_without_span(TryEnd, &[dummy_byte]);\n        }\n"),
    # ---- R-NARROW / R-VM-REGS
    ("narrow-match-guard-gone", "C05", "R-NARROW", "compile_match_arm_patterns", "crates/bytecode/src/compiler.rs",
     "        if arm_patterns.len() > i8::MAX as usize {\n            return self.error(ErrorKind::TooManyMatchPatterns(arm_patterns.len()));\n        }\n",
     ""),
    ("narrow-match-guard-too-wide", "C05", "R-NARROW", "compile_match_arm_patterns", "crates/bytecode/src/compiler.rs",
     "        if arm_patterns.len() > i8::MAX as usize {",
     "        if arm_patterns.len() > u8::MAX as usize {"),
    ("narrow-nested-args-guard-gone", "C05", "R-NARROW", "compile_unpack_nested_args_of_tuple", "crates/bytecode/src/compiler.rs",
     "                if nested_args.len() > i8::MAX as usize {\n                    return self.error(ErrorKind::FunctionPropertyLimit {\n                        property: \"nested args\".into(),\n                        amount: nested_args.len(),\n                    });\n                }\n",
     ""),
    ("narrow-multi-assign-limit-255", "C05", "R-NARROW", "compile_multi_assign", "crates/bytecode/src/compiler.rs",
     "        if rhs_is_temp_tuple && targets.len() > i8::MAX as usize + 1 {",
     "        if rhs_is_temp_tuple && targets.len() > u8::MAX as usize {"),
    ("narrow-frame-new-cast", "C05", "R-NARROW", "Frame", "crates/bytecode/src/frame.rs",
     "        let Ok(temporary_base) = u8::try_from(temporary_base) else {\n            return Err(FrameError::LocalRegisterOverflow);\n        };",
     "        let temporary_base = temporary_base as u8;"),
    ("narrow-push-register-guard-gone", "C05", "R-NARROW", "Frame", "crates/bytecode/src/frame.rs",
     "        if new_register == u8::MAX {\n            Err(FrameError::StackOverflow)\n        } else {",
     "        if self.register_stack.len() > 1000 {\n            Err(FrameError::StackOverflow)\n        } else {"),
    ("narrow-captures-guard-gone", "C05", "R-NARROW", "compile_function", "crates/bytecode/src/compiler.rs",
     "        if optional_args.len() + captures.len() > u8::MAX as usize {",
     "        if captures.len() > usize::MAX / 2 {"),
    ("narrow-new-caller-of-compile_frame", "C05", "R-NARROW", "compile_frame", "crates/bytecode/src/compiler.rs",
     "    fn compile_frame(&mut self, params: FrameParameters, ctx: CompileNodeContext) -> Result<()> {",
     "    #[allow(dead_code)]\n    fn compile_frame_again(&mut self, params: FrameParameters, ctx: CompileNodeContext) -> Result<()> {\n        self.compile_frame(params, ctx)\n    }\n\n    fn compile_frame(&mut self, params: FrameParameters, ctx: CompileNodeContext) -> Result<()> {"),
    ("narrow-chunks-guard-gone", "C06", "R-NARROW", "compile_make_sequence", "crates/bytecode/src/compiler.rs",
     "                    if max_batch_size == 0 {\n                        return self.error(FrameError::StackOverflow);\n                    }\n",
     ""),
    ("narrow-parser-smallint-range", "C05", "R-NARROW", "consume_number", "crates/parser/src/parser.rs",
     "            if u8::try_from(n).is_ok() {",
     "            if i16::try_from(n).is_ok() && n >= 0 {"),
    ("vm-regs-unchecked-add", "C06", "R-VM-REGS", "run_unary_op", "crates/runtime/src/vm.rs",
     "        let [result_register, value_register] = self.next_registers()?;",
     "        let result_register = self.new_frame_base()?;\n        let value_register = result_register + 1;"),
    ("vm-regs-as-u8", "C06", "R-VM-REGS", "new_frame_base", "crates/runtime/src/vm.rs",
     "        match u8::try_from(self.registers.len() - self.register_base) {\n            Ok(frame_base) if frame_base < u8::MAX => Ok(frame_base),\n            _ => runtime_error!(\"Overflow of the current frame's register stack\"),\n        }",
     "        match (self.registers.len() - self.register_base) as u8 {\n            frame_base if frame_base < u8::MAX => Ok(frame_base),\n            _ => runtime_error!(\"Overflow of the current frame's register stack\"),\n        }"),
    ("vm-frame-base-255", "C06", "R-VM-REGS", "new_frame_base", "crates/runtime/src/vm.rs",
     "            Ok(frame_base) if frame_base < u8::MAX => Ok(frame_base),",
     "            Ok(frame_base) => Ok(frame_base),"),
    ("vm-generator-extra-args-unguarded", "C06", "R-VM-REGS", "call_generator", "crates/runtime/src/vm.rs",
     "        if call_info.arg_count > expected_arg_count {\n            generator_vm.registers.extend(",
     "        if call_info.arg_count != u8::MAX {\n            generator_vm.registers.extend("),
    ("vm-unpack-limit-gone", "C06", "R-VM-REGS", "unpack_packed_arguments", "crates/runtime/src/vm.rs",
     "                if unpacked_values.len() == max_unpacked_args {\n                    return runtime_error!(\"Call argument limit reached during unpacking\");\n                }\n",
     "                let _ = max_unpacked_args;\n"),
    ("vm-callinfo-frame-base-from-len", "C06", "R-VM-REGS", "call_overridden_op_1", "crates/runtime/src/vm.rs",
     "        // Set up the call registers at the end of the stack\n        let frame_base = self.new_frame_base()?;\n        self.registers.push(self.clone_register(value_register)); // Frame base",
     "        // Set up the call registers at the end of the stack\n        let frame_base = u8::try_from(self.registers.len() - self.register_base).unwrap_or(u8::MAX);\n        self.registers.push(self.clone_register(value_register)); // Frame base"),
    ("arith-unguarded-add", "C06", "R-ARITH", "expanded", "crates/runtime/src/core_lib/range.rs",
     "                        Some(start.saturating_sub(n)),", "                        Some(start - n),"),
    ("det-collect-pending", "C05", "R-DET", "finalize_id_accesses", "crates/parser/src/parser.rs",
     "        self.ids_assigned_in_frame\n            .extend(self.pending_assignments.drain());",
     "        let drained: Vec<ConstantIndex> = self.pending_assignments.drain().collect();\n        self.ids_assigned_in_frame.extend(drained);"),
    ("match-target-id-branch-by-pattern-position", "C16", "R-MATCH-TARGET", "compile_match_arm_patterns",
     "crates/bytecode/src/compiler.rs",
     "                            self.compile_check_type(id_register, *type_hint, ctx)?;\n                        // Where should failed type checks jump to?\n                        if params.is_last_alternative {",
     "                            self.compile_check_type(id_register, *type_hint, ctx)?;\n                        // Where should failed type checks jump to?\n                        if is_last_pattern {"),
    ("match-target-nested-flag-recomputed", "C03", "R-MATCH-TARGET", "compile_match_arm_patterns",
     "crates/bytecode/src/compiler.rs",
     "                            match_register: params.match_register,\n                            is_last_alternative: params.is_last_alternative,",
     "                            match_register: params.match_register,\n                            is_last_alternative: is_last_pattern,"),
    ("force-export-multi-assign-flag-only", "C18", "R-FORCE-EXPORT", "compile_multi_assign",
     "crates/bytecode/src/compiler.rs",
     "                    if export_assignment || self.force_export_assignment() {\n                        self.compile_value_export(*id_index, target_register)?;",
     "                    if export_assignment {\n                        self.compile_value_export(*id_index, target_register)?;"),
    ("base-walk-get-on-original-map", "C17", "R-BASE-WALK", "run_access_inner", "crates/runtime/src/vm.rs",
     "                    let maybe_value = access_map.get(&key);",
     "                    let maybe_value = map.get(&key);"),
    ("pull-one-chain-prefetches-b", "C13", "R-PULL-ONE", "Chain", "crates/runtime/src/core_lib/iterator/adaptors.rs",
     "            Some(ref mut iter) => match iter.next() {\n                output @ Some(_) => output,\n                None => {\n                    self.iter_a = None;\n                    self.iter_b.next()\n                }\n            },",
     "            Some(ref mut iter) => {\n                let output_a = iter.next();\n                let output_b = self.iter_b.next();\n                match output_a {\n                    output @ Some(_) => output,\n                    None => {\n                        self.iter_a = None;\n                        output_b\n                    }\n                }\n            }"),
    ("float-notation-exp-in-display", "C01", "R-FLOAT-NOTATION", "KNumber", "crates/runtime/src/types/number.rs",
     "                    write!(f, \"{n:.1}\")",
     "                    write!(f, \"{n:e}\")"),
    ("fmt-spec-precision-needs-width", "C11", "R-FMT-SPEC", "render_format_options", "crates/format/src/format.rs",
     "        result.push_str(&min_width.to_string());\n    }\n    if let Some(precision) = options.precision {\n        result.push_str(&format!(\".{precision}\"));\n    }",
     "        result.push_str(&min_width.to_string());\n        if let Some(precision) = options.precision {\n            result.push_str(&format!(\".{precision}\"));\n        }\n    }"),
    ("barrier-comparison-op-unconditional", "C17", "R-BARRIER-FRAME", "run_overridden_comparison_op", "crates/runtime/src/vm.rs",
     "        self.call_overridden_op_2(Some(result_register), lhs, rhs, op)?;\n        match self.get_overridden_op_result(old_frame_count, result_register)? {\n            KValue::Bool(result) => Ok(result),\n            unexpected => unexpected_type(\"Bool\", &unexpected),\n        }",
     "        self.call_overridden_op_2(Some(result_register), lhs, rhs, op)?;\n        let _ = old_frame_count;\n        self.frame_mut().execution_barrier = true;\n        let result = self.execute_instructions();\n        if result.is_err() {\n            self.pop_frame(KValue::Null)?;\n        }\n        self.truncate_registers(result_register);\n        match result? {\n            KValue::Bool(result) => Ok(result),\n            unexpected => unexpected_type(\"Bool\", &unexpected),\n        }"),
    ("unpack-once-count-not-reset", "C06", "R-UNPACK-ONCE", "unpack_packed_arguments", "crates/runtime/src/vm.rs",
     "        info.packed_arg_count = 0;\n\n        Ok(())",
     "        Ok(())"),
    ("reg-distinct-write-op-container-twice", "C17", "R-REG-DISTINCT", "run_write_op", "crates/runtime/src/vm.rs",
     "                self.run_index_assign(container_register, write_arg_register, write_value_register)",
     "                self.run_index_assign(container_register, container_register, write_arg_register)"),
    ("module-canon-file-form-returned-raw", "C18", "R-MODULE-CANON", "find_module", "crates/bytecode/src/module_loader.rs",
     "        canonicalize(&result).map_err(|error| {\n            ModuleLoaderErrorKind::FailedToCanonicalizePath {\n                path: result,\n                error,\n            }\n            .into()\n        })\n    } else {",
     "        Ok(result)\n    } else {"),
    ("export-id-from-import-ignores-alias", "C18", "R-EXPORT-ID", "compile_import", "crates/bytecode/src/compiler.rs",
     "                                let export_id = maybe_as.unwrap_or(*import_id);",
     "                                let export_id = *import_id;"),
    ("tc-hint-ignored-rebind-unchecked", "C16", "R-TC-HINT-SIBLING", "compile_assign_to_map_finish", "crates/bytecode/src/compiler.rs",
     "                Node::Ignored(_, maybe_type) => {\n                    if let Some(type_hint) = maybe_type {\n                        self.compile_assert_type(\n                            target_register,\n                            *type_hint,\n                            Some(id_or_ignored),\n                            ctx,\n                        )?;\n                    }\n\n                    self.pop_register()?; // target_register",
     "                Node::Ignored(..) => {\n                    self.pop_register()?; // target_register"),
    ("len-then-index-separate-len", "C19", "R-LEN-THEN-INDEX", "run_index", "crates/runtime/src/vm.rs",
     "                let data = l.data();\n                let index = self.validate_index(n, Some(data.len()))?;\n                data[index].clone()",
     "                let index = self.validate_index(n, Some(l.len()))?;\n                l.data()[index].clone()"),
    ("num-wrap-pow-exponent-as-u32", "C01", "R-NUM-WRAP", "KNumber::pow", "crates/runtime/src/types/number.rs",
     "                } else if let Ok(exponent) = u32::try_from(b) {\n                    I64(a.wrapping_pow(exponent))\n                } else {",
     "                } else if b != i64::MAX {\n                    I64(a.wrapping_pow(b as u32))\n                } else {"),
    ("catch-last-no-rethrow", "C04", "R-CATCH-LAST", "compile_try_expression", "crates/bytecode/src/compiler.rs",
     "            if rethrow_if_unmatched {\n                // None of the catch blocks accepted the caught value, so throw it again\n                self.push_span(ctx.node_with_span(catch_block.arg), ctx.ast);\n                self.push_op(Throw, &[catch_register]);\n                self.pop_span();\n            }\n",
     ""),
    ("arith-range-index-unchecked-add", "C06", "R-ARITH", "run_index", "crates/runtime/src/vm.rs",
     "                match start.checked_add(index as i64) {\n                    Some(result) => Number(result.into()),\n                    None => return runtime_error!(\"index out of bounds - index: {n}\"),\n                }",
     "                Number((start + index as i64).into())"),
    ("unsafe-bounds-split-point-unordered", "C15", "R-UNSAFE-BOUNDS", "StringSlice::split", "crates/parser/src/string_slice.rs",
     "        if split_point <= self.bounds.end.to_usize() && self.data.is_char_boundary(split_point) {",
     "        if self.data.is_char_boundary(split_point) {"),
    ("builders-on-error-uncaught-path-keeps-them", "C07", "R-BUILDERS-ON-ERROR", "execute_instructions", "crates/runtime/src/vm.rs",
     "                        self.execution_state = ExecutionState::Inactive;\n                        self.sequence_builders.truncate(sequence_builder_count);\n                        self.string_builders.truncate(string_builder_count);\n                        return Err(error);",
     "                        self.execution_state = ExecutionState::Inactive;\n                        self.string_builders.truncate(string_builder_count);\n                        return Err(error);"),
]


# Behaviour-preserving edits that must NOT raise an alarm: (name, property, file, [(old, new), ...])
BENIGN = [
    ("benign-unwind-clear-by-index", "C04", "crates/runtime/src/vm.rs",
     [("                    if let [.., caller, _] = self.call_stack.as_mut_slice() {\n                        caller.return_value_register = None;\n                    }\n",
       "                    let depth = self.call_stack.len();\n                    if depth >= 2 {\n                        self.call_stack[depth - 2].return_value_register = None;\n                    }\n")]),
    ("benign-display-error-explicit-arm", "C08", "crates/runtime/src/vm.rs",
     [("                let mut display_context = DisplayContext::with_vm(self);\n                // Errors come from `@display` functions of contained values, so they're passed on\n                // as they are (a thrown value stays catchable, a timeout stays uncatchable).\n                other.display(&mut display_context)?;\n                self.set_register(result, display_context.result().into());\n                Ok(())\n",
       "                let mut display_context = DisplayContext::with_vm(self);\n                match other.display(&mut display_context) {\n                    Ok(_) => {\n                        self.set_register(result, display_context.result().into());\n                        Ok(())\n                    }\n                    Err(error) => Err(error),\n                }\n")]),
    ("benign-rename-nested-args", "C05", "crates/bytecode/src/compiler.rs",
     [("elements: nested_args,\n                ..\n            } => {\n                self.push_span(ctx.node_with_span(arg), ctx.ast);\n\n                // Nested args are accessed with signed 8-bit indices\n                if nested_args.len() > i8::MAX as usize {\n                    return self.error(ErrorKind::FunctionPropertyLimit {\n                        property: \"nested args\".into(),\n                        amount: nested_args.len(),\n                    });\n                }\n\n                let (size_op, size_to_check) = args_size_op(nested_args, ctx.ast);\n                self.push_op(size_op, &[arg_register, size_to_check as u8]);\n                self.compile_unpack_nested_args_of_tuple(arg_register, nested_args, ctx)?;",
       "elements: inner,\n                ..\n            } => {\n                self.push_span(ctx.node_with_span(arg), ctx.ast);\n\n                // Nested args are accessed with signed 8-bit indices\n                if inner.len() > i8::MAX as usize {\n                    return self.error(ErrorKind::FunctionPropertyLimit {\n                        property: \"nested args\".into(),\n                        amount: inner.len(),\n                    });\n                }\n\n                let (size_op, size_to_check) = args_size_op(inner, ctx.ast);\n                self.push_op(size_op, &[arg_register, size_to_check as u8]);\n                self.compile_unpack_nested_args_of_tuple(arg_register, inner, ctx)?;")]),
    ("benign-limit-check-as-match", "C05", "crates/bytecode/src/compiler.rs",
     [("        if arm_patterns.len() > i8::MAX as usize {\n            return self.error(ErrorKind::TooManyMatchPatterns(arm_patterns.len()));\n        }\n",
       "        let pattern_count = arm_patterns.len();\n        if pattern_count >= 128 {\n            return self.error(ErrorKind::TooManyMatchPatterns(pattern_count));\n        }\n")]),
    ("benign-size-hint-checked-sub", "C13", "crates/runtime/src/core_lib/string/iterators.rs",
     [("impl Iterator for Split {\n    type Item = Output;\n",
       "impl Split {\n    #[allow(dead_code)]\n    fn remaining(&self) -> usize {\n        if self.start <= self.input.len() {\n            self.input.len() - self.start\n        } else {\n            0\n        }\n    }\n}\n\nimpl Iterator for Split {\n    type Item = Output;\n")]),
    ("benign-vm-checked-add", "C06", "crates/runtime/src/vm.rs",
     [("        let [result_register, value_register] = self.next_registers()?;",
       "        let result_register = self.new_frame_base()?;\n        let Some(value_register) = result_register.checked_add(1) else {\n            return runtime_error!(\"Overflow of the current frame's register stack\");\n        };")]),
    ("benign-force-export-hoisted-everywhere", "C18", "crates/bytecode/src/compiler.rs",
     [("        ctx: CompileNodeContext,\n    ) -> Result<CompileNodeOutput> {\n        // Reserve any assignment registers for IDs on the LHS before compiling the RHS\n        let result = self.assign_result_register(ctx)?;\n        let target_registers = self.local_registers_for_assign_target(target, ctx)?;",
       "        ctx: CompileNodeContext,\n    ) -> Result<CompileNodeOutput> {\n        let export_assignment = export_assignment || self.force_export_assignment();\n        // Reserve any assignment registers for IDs on the LHS before compiling the RHS\n        let result = self.assign_result_register(ctx)?;\n        let target_registers = self.local_registers_for_assign_target(target, ctx)?;"),
      ("                    if export_assignment || self.force_export_assignment() {\n                        self.compile_value_export(*id, target_register)?;",
       "                    if export_assignment {\n                        self.compile_value_export(*id, target_register)?;"),
      ("                        value_register,\n                        export_assignment,\n                        ctx,\n                    )?;\n",
       "                        value_register,\n                        export_assignment || self.force_export_assignment(),\n                        ctx,\n                    )?;\n"),
      ("                            map_register,\n                            false,\n                            ctx,",
       "                            map_register,\n                            self.force_export_assignment(),\n                            ctx,")]),
    ("benign-pow-exponent-guarded-cast", "C01", "crates/runtime/src/types/number.rs",
     [("                } else if let Ok(exponent) = u32::try_from(b) {\n                    I64(a.wrapping_pow(exponent))\n                } else {",
       "                } else if b <= u32::MAX as i64 {\n                    I64(a.wrapping_pow(b as u32))\n                } else {")]),
    ("benign-unpack-once-zero-passed-by-forwarder", "C06", "crates/runtime/src/vm.rs",
     [("        info.packed_arg_count = 0;\n\n        Ok(())", "        Ok(())"),
      ("                    CallInfo {\n                        instance: Some(info.frame_base),\n                        ..info\n                    },",
       "                    CallInfo {\n                        instance: Some(info.frame_base),\n                        packed_arg_count: 0,\n                        ..info\n                    },")]),
    ("benign-barrier-frame-greater-than", "C17", "crates/runtime/src/vm.rs",
     [("        let result = if self.call_stack.len() == old_frame_count {\n            // If the call stack is the same size, then a native function was called and the result\n            // will be in the result register\n            Ok(self.clone_register(result_register))\n        } else {",
       "        let result = if self.call_stack.len() <= old_frame_count {\n            // If the call stack is the same size, then a native function was called and the result\n            // will be in the result register\n            Ok(self.clone_register(result_register))\n        } else {")]),
    ("benign-read-line-trim-end", "C06", "crates/runtime/src/core_lib/io.rs",
     [("                    let line = result.strip_suffix('\\n').unwrap_or(&result);\n                    line.strip_suffix('\\r').unwrap_or(line).into()",
       "                    let newline_bytes = if result.ends_with(\"\\r\\n\") {\n                        2\n                    } else if result.ends_with('\\n') {\n                        1\n                    } else {\n                        0\n                    };\n                    result[..result.len() - newline_bytes].into()")]),
]

# Seeded changes written by independent sub-agents (seeded/<id>/patch.diff) that a rule must report:
# (seed id, property whose check must fail, expected rule)
SEEDS = [
    ("C03_a", "C03", "R-MATCH-ORDER"),
    ("C04_a", "C04", "R-FRAMES"),
    ("C04_b", "C07", "R-REGS"),
    ("C05_a", "C05", "R-NARROW"),
    ("C05_b", "C05", "R-ENC-FLAGS"),
    ("C06_a", "C06", "R-BORROW"),
    ("C07_a", "C07", "R-REGS"),
    ("C07_b", "C07", "R-IMPORT"),
    ("C08_a", "C08", "R-TIMEOUT-POLL"),
    ("C08_b", "C08", "R-TIMEOUT-NOCATCH"),
    ("C10_b", "C10", "R-INDENT"),
    ("C12_a", "C12", "R-SPAN"),
    ("C12_b", "C12", "R-IP-SYNC"),
    ("C13_b", "C13", "R-ITER-COPY"),
    ("C14_a", "C14", "R-MAP-ORDER"),
    ("C14_b", "C14", "R-FRESH"),
    ("C16_a", "C16", "R-TC-FLAG"),
    ("C16_b", "C16", "R-TC-NULL-FIRST"),
    ("C17_a", "C17", "R-DISPATCH-OPERANDS"),
    ("C18_a", "C18", "R-IMPORT"),
    ("C18_b", "C18", "R-RESOLVE-ORDER"),
    ("C19_a", "C19", "R-SIBLING-API"),
    ("C19_b", "C19", "R-ATOMIC"),
    ("C20_a", "C20", "R-SERDE-KINDS"),
    # round 2
    ("C03_c", "C03", "R-MATCH-ORDER"),
    ("C04_c", "C04", "R-REPLACE-ATOMIC"),
    ("C04_d", "C04", "R-ITER-ERR"),
    ("C05_c", "C05", "R-NARROW"),
    ("C05_d", "C05", "R-ENC"),
    ("C06_c", "C06", "R-CONV-UNWRAP"),
    ("C06_d", "C06", "R-SIGN-INDEX"),
    ("C07_c", "C07", "R-REGS"),
    ("C07_d", "C07", "R-UNWIND-ALL"),
    ("C12_c", "C12", "R-SPAN"),
    ("C12_d", "C12", "R-IP-SYNC"),
    ("C14_c", "C14", "R-STALE-INDEX"),
    ("C15_c", "C15", "R-BOUNDS-ORDER"),
    ("C15_d", "C15", "R-WIDTH-UNITS"),
    # round 3
    ("C01_c", "C01", "R-VARINT"),
    ("C08_c", "C08", "R-ERR-SWALLOW"),
    ("C08_d", "C08", "R-TIMEOUT-POLL"),
    ("C10_d", "C10", "R-INDENT"),
    ("C16_c", "C16", "R-TC-FLAG"),
    ("C17_c", "C17", "R-DISPATCH-OPERANDS"),
    ("C17_d", "C17", "R-OBJ-DEFAULTS"),
    ("C18_c", "C18", "R-IMPORT"),
    ("C19_c", "C19", "R-SNAPSHOT-WRITEBACK"),
    ("C19_d", "C19", "R-RECURSIVE-READ"),
    ("C20_c", "C20", "R-SERDE-KINDS"),
    ("C20_d", "C20", "R-SERDE-NARROW"),
    # round 5
    ("C04_e", "C04", "R-TRY-COUNT"),
    ("C04_f", "C04", "R-ITER-ERR"),
    ("C05_e", "C05", "R-TRY-COUNT"),
    ("C05_f", "C05", "R-NARROW"),
    ("C07_e", "C07", "R-IMPORT"),
    ("C07_f", "C07", "R-REGS"),
    ("C08_e", "C08", "R-TIMEOUT-POLL"),
    ("C08_f", "C08", "R-UNWIND-ALL"),
    ("C12_e", "C12", "R-SPAN"),
    ("C12_f", "C12", "R-FRAME-SAVE-RESTORE"),
    ("C14_e", "C14", "R-MAP-ORDER"),
    ("C14_f", "C14", "R-HASHEQ"),
    ("C17_e", "C17", "R-DISPATCH-OPERANDS"),
    ("C17_f", "C17", "R-BASE-WALK"),
    ("C19_e", "C19", "R-SNAPSHOT-WRITEBACK"),
    ("C19_f", "C19", "R-RECURSIVE-READ"),
    ("C16_d", "C16", "R-MATCH-TARGET"),
    ("C18_d", "C18", "R-FORCE-EXPORT"),
    # caught after further rules were derived from the misses
    ("C01_d", "C01", "R-FLOAT-NOTATION"),
    ("C11_a", "C11", "R-FMT-SPEC"),
    ("C11_b", "C11", "R-LINE-OFFSETS"),
    ("C11_c", "C11", "R-LINE-OFFSETS"),
    ("C13_a", "C13", "R-PULL-ONE"),
    ("C17_b", "C17", "R-BASE-WALK"),
    ("C20_b", "C20", "R-CHAR-UNITS"),
]


# Behaviour-preserving refactorings written by independent sub-agents (benign/<id>/patch.diff): the check of the
# property whose anchored code they touch must stay silent. Filled from benign/*/meta.json.
def benign_patches():
    out = []
    for d in sorted(glob.glob(os.path.join(VERIF, "benign", "C??_b*"))):
        try:
            m = json.load(open(os.path.join(d, "meta.json")))
        except Exception:
            continue
        for p in m.get("silent_on", [m.get("property")]):
            out.append((os.path.basename(d), p))
    return out


def sh(cmd, **kw):
    return subprocess.run(cmd, shell=True, stdout=subprocess.PIPE, stderr=subprocess.STDOUT, text=True, **kw)


def main():
    want = sys.argv[1:]
    prop = None
    if "--property" in want:
        i = want.index("--property")
        prop = want[i + 1]
        del want[i:i + 2]
    muts = [m for m in MUTANTS if m[5] is not None and (not want or any(w in m[0] for w in want))
            and (prop is None or m[1] == prop)]
    benign = [x for x in BENIGN if (not want or any(w in x[0] for w in want)) and (prop is None or x[1] == prop)]
    seeds = [x for x in SEEDS if (not want or any(w in "seed-" + x[0] for w in want)) and (prop is None or x[1] == prop)]
    bpatches = [x for x in benign_patches() if (not want or any(w in "benign-" + x[0] for w in want))
                and (prop is None or x[1] == prop)]
    if not muts and not seeds and not benign and not bpatches:
        print("selftest: ok=0 fail=0 skip=0 (no catalogued mutant for this selection)")
        return 0
    scratch = tempfile.mkdtemp(prefix="kv_selftest_")
    wt = os.path.join(scratch, "repo")
    r = sh(f"git -C /repo worktree add --detach {wt} HEAD")
    if r.returncode != 0:
        print(r.stdout)
        return 2
    env = dict(os.environ, KV_REPO=wt)
    ok = fail = skip = 0
    try:
        # baseline on the scratch copy must be silent apart from known findings
        for name, prop, rule, fnsub, path, old, new in muts:
            fp = os.path.join(wt, path)
            src = open(fp).read()
            if src.count(old) != 1:
                print(f"SKIP {name}: anchor text occurs {src.count(old)} times")
                skip += 1
                continue
            open(fp, "w").write(src.replace(old, new))
            r = subprocess.run([os.path.join(VERIF, "check"), prop, "--tier", "quick"], env=env, stdout=subprocess.PIPE,
                               stderr=subprocess.STDOUT, text=True)
            open(fp, "w").write(src)
            hit = [l for l in r.stdout.splitlines() if f"rule={rule} " in l and fnsub in l]
            broken = "CHECK-BROKEN" in r.stdout
            if r.returncode == 1 and hit:
                ok += 1
                print(f"OK   {name}: {prop} {rule} fired: {hit[0].strip()[:150]}")
            else:
                fail += 1
                print(f"FAIL {name}: {prop} exit={r.returncode} broken={broken} expected {rule} on {fnsub}")
                print("     " + "\n     ".join(r.stdout.splitlines()[-6:]))
        for name, bprop, path, edits in benign:
            fp = os.path.join(wt, path)
            src = open(fp).read()
            new_src = src
            okk = True
            for old_t, new_t in edits:
                if new_src.count(old_t) != 1:
                    okk = False
                new_src = new_src.replace(old_t, new_t)
            if not okk:
                print(f"SKIP {name}: anchor text not found exactly once")
                skip += 1
                continue
            open(fp, "w").write(new_src)
            r = subprocess.run([os.path.join(VERIF, "check"), bprop, "--tier", "quick"], env=env, stdout=subprocess.PIPE,
                               stderr=subprocess.STDOUT, text=True)
            open(fp, "w").write(src)
            if r.returncode == 0 and "VIOLATION" not in r.stdout:
                ok += 1
                print(f"OK   {name}: {bprop} stays silent on a behaviour-preserving edit")
            else:
                fail += 1
                print(f"FAIL {name}: {bprop} exit={r.returncode} on a behaviour-preserving edit")
                print("     " + "\n     ".join([l for l in r.stdout.splitlines() if "VIOLATION" in l or "BROKEN" in l][:6]))
        for bid, bprop in bpatches:
            patch = os.path.join(VERIF, "benign", bid, "patch.diff")
            r = sh(f"git -C {wt} apply {patch}")
            if r.returncode != 0:
                print(f"SKIP benign-{bid}: patch does not apply to HEAD")
                skip += 1
                sh(f"git -C {wt} checkout -- . && git -C {wt} clean -fdq")
                continue
            r = subprocess.run([os.path.join(VERIF, "check"), bprop, "--tier", "quick"], env=env, stdout=subprocess.PIPE,
                               stderr=subprocess.STDOUT, text=True)
            sh(f"git -C {wt} checkout -- . && git -C {wt} clean -fdq")
            if r.returncode == 0 and "VIOLATION" not in r.stdout:
                ok += 1
                print(f"OK   benign-{bid}: {bprop} stays silent on an independent behaviour-preserving refactoring")
            else:
                fail += 1
                print(f"FAIL benign-{bid}: {bprop} exit={r.returncode} on a behaviour-preserving refactoring")
                print("     " + "\n     ".join([l for l in r.stdout.splitlines() if "VIOLATION" in l or "BROKEN" in l][:6]))
        for sid, sprop, rule in seeds:
            patch = os.path.join(VERIF, "seeded", sid, "patch.diff")
            r = sh(f"git -C {wt} apply {patch}")
            if r.returncode != 0:
                print(f"SKIP seed-{sid}: patch does not apply to HEAD")
                skip += 1
                sh(f"git -C {wt} checkout -- . && git -C {wt} clean -fdq")
                continue
            r = subprocess.run([os.path.join(VERIF, "check"), sprop, "--tier", "quick"], env=env, stdout=subprocess.PIPE,
                               stderr=subprocess.STDOUT, text=True)
            sh(f"git -C {wt} checkout -- . && git -C {wt} clean -fdq")
            hit = [l for l in r.stdout.splitlines() if f"rule={rule} " in l]
            if r.returncode == 1 and hit:
                ok += 1
                print(f"OK   seed-{sid}: {sprop} {rule} fired: {hit[0].strip()[:150]}")
            else:
                fail += 1
                print(f"FAIL seed-{sid}: {sprop} exit={r.returncode} expected {rule}")
                print("     " + "\n     ".join(r.stdout.splitlines()[-6:]))
    finally:
        sh(f"git -C /repo worktree remove --force {wt}")
        shutil.rmtree(scratch, ignore_errors=True)
    print(f"selftest: ok={ok} fail={fail} skip={skip}")
    return 0 if fail == 0 else 1


if __name__ == "__main__":
    sys.exit(main())
