// kotofacts: a rustc_private driver that dumps type-checked facts (MIR, resolved callees,
// callback edges through trait bounds, ADTs, impls, HIR match arms) as one JSON file per crate.
// Used as RUSTC_WORKSPACE_WRAPPER under `cargo +nightly check`.  Zero dependencies.
#![feature(rustc_private)]
#![allow(clippy::all)]
extern crate rustc_abi;
extern crate rustc_driver;
extern crate rustc_hir;
extern crate rustc_hir_pretty;
extern crate rustc_interface;
extern crate rustc_middle;
extern crate rustc_span;

use rustc_driver::Compilation;
use rustc_hir::def::DefKind;
use rustc_hir::def_id::{DefId, LOCAL_CRATE};
use rustc_middle::mir::{self, Operand, Place, ProjectionElem, Rvalue, StatementKind, TerminatorKind};
use rustc_middle::ty::{self, Ty, TyCtxt};
use std::collections::{HashMap, HashSet};
use std::fmt::Write as _;

fn js(s: &str) -> String {
    let mut o = String::with_capacity(s.len() + 2);
    o.push('"');
    for c in s.chars() {
        match c {
            '"' => o.push_str("\\\""),
            '\\' => o.push_str("\\\\"),
            '\n' => o.push_str("\\n"),
            '\r' => o.push_str("\\r"),
            '\t' => o.push_str("\\t"),
            c if (c as u32) < 0x20 => {
                write!(o, "\\u{:04x}", c as u32).unwrap();
            }
            c => o.push(c),
        }
    }
    o.push('"');
    o
}

fn trunc(s: &str, n: usize) -> String {
    let s = s.replace('\n', " ");
    if s.chars().count() > n {
        let mut t: String = s.chars().take(n).collect();
        t.push('…');
        t
    } else {
        s
    }
}

struct Cx<'tcx> {
    tcx: TyCtxt<'tcx>,
    // interned strings (def paths)
    defs: Vec<String>,
    def_map: HashMap<DefId, usize>,
    // interned types
    tys: Vec<String>, // json entries
    ty_map: HashMap<Ty<'tcx>, usize>,
    cb_memo: HashMap<(DefId, ty::GenericArgsRef<'tcx>), Vec<DefId>>,
}

fn def_str(tcx: TyCtxt<'_>, did: DefId) -> String {
    format!("{}{}", tcx.crate_name(did.krate), tcx.def_path(did).to_string_no_crate_verbose())
}

impl<'tcx> Cx<'tcx> {
    fn def(&mut self, did: DefId) -> usize {
        if let Some(i) = self.def_map.get(&did) {
            return *i;
        }
        let s = def_str(self.tcx, did);
        let pretty = rustc_middle::ty::print::with_no_trimmed_paths!(self.tcx.def_path_str(did));
        let i = self.defs.len();
        let kind = format!("{:?}", self.tcx.def_kind(did));
        let kind = kind.split(|c: char| !c.is_alphanumeric()).next().unwrap_or("").to_string();
        self.defs.push(format!("[{},{},{},{}]", js(&s), js(&pretty), if did.is_local() { 1 } else { 0 }, js(&kind)));
        self.def_map.insert(did, i);
        i
    }

    fn ty(&mut self, t: Ty<'tcx>) -> usize {
        if let Some(i) = self.ty_map.get(&t) {
            return *i;
        }
        // reserve slot first (types are finite trees, no cycles)
        let i = self.tys.len();
        self.tys.push(String::new());
        self.ty_map.insert(t, i);
        let disp = rustc_middle::ty::print::with_no_trimmed_paths!(format!("{}", t));
        let mut kind = "other";
        let mut d: Option<usize> = None;
        let mut a: Vec<usize> = vec![];
        let mut extra = String::new();
        match t.kind() {
            ty::Adt(def, args) => {
                kind = "adt";
                d = Some(self.def(def.did()));
                for ga in args.iter() {
                    if let Some(t2) = ga.as_type() {
                        a.push(self.ty(t2));
                    }
                }
            }
            ty::Ref(_, inner, m) => {
                kind = if m.is_mut() { "refmut" } else { "ref" };
                a.push(self.ty(*inner));
            }
            ty::RawPtr(inner, m) => {
                kind = if m.is_mut() { "ptrmut" } else { "ptr" };
                a.push(self.ty(*inner));
            }
            ty::Tuple(ts) => {
                kind = "tuple";
                for t2 in ts.iter() {
                    a.push(self.ty(t2));
                }
            }
            ty::Slice(inner) => {
                kind = "slice";
                a.push(self.ty(*inner));
            }
            ty::Array(inner, len) => {
                kind = "array";
                a.push(self.ty(*inner));
                if let Some(n) = len.try_to_target_usize(self.tcx) {
                    extra = format!(",\"n\":{}", n);
                }
            }
            ty::Closure(did, args) => {
                kind = "closure";
                d = Some(self.def(*did));
                for t2 in args.as_closure().upvar_tys().iter() {
                    a.push(self.ty(t2));
                }
            }
            ty::FnDef(did, args) => {
                kind = "fndef";
                d = Some(self.def(*did));
                for ga in args.iter() {
                    if let Some(t2) = ga.as_type() {
                        a.push(self.ty(t2));
                    }
                }
            }
            ty::FnPtr(..) => {
                kind = "fnptr";
            }
            ty::Dynamic(preds, ..) => {
                kind = "dyn";
                if let Some(p) = preds.principal_def_id() {
                    d = Some(self.def(p));
                }
            }
            ty::Param(_) => {
                kind = "param";
            }
            ty::Bool => kind = "bool",
            ty::Char => kind = "char",
            ty::Int(_) => kind = "int",
            ty::Uint(_) => kind = "uint",
            ty::Float(_) => kind = "float",
            ty::Str => kind = "str",
            ty::Never => kind = "never",
            ty::Alias(..) => kind = "alias",
            _ => {}
        }
        let mut e = format!("{{\"s\":{},\"k\":{}", js(&disp), js(kind));
        if let Some(d) = d {
            write!(e, ",\"d\":{}", d).unwrap();
        }
        if !a.is_empty() {
            write!(e, ",\"a\":[{}]", a.iter().map(|x| x.to_string()).collect::<Vec<_>>().join(",")).unwrap();
        }
        e.push_str(&extra);
        e.push('}');
        self.tys[i] = e;
        i
    }

    fn loc(&self, span: rustc_span::Span) -> String {
        let sm = self.tcx.sess.source_map();
        if span.from_expansion() {
            let mut names: Vec<String> = vec![];
            let mut outer_line = 0usize;
            for e in span.macro_backtrace() {
                let n = match e.kind {
                    rustc_span::ExpnKind::Macro(_, name) => name.to_string(),
                    rustc_span::ExpnKind::Desugaring(k) => format!("desugar:{:?}", k),
                    rustc_span::ExpnKind::AstPass(_) => "astpass".to_string(),
                    rustc_span::ExpnKind::Root => "root".to_string(),
                };
                names.push(n);
                outer_line = sm.lookup_char_pos(e.call_site.lo()).line;
            }
            let inner_line = sm.lookup_char_pos(span.lo()).line;
            format!("[{},{},{}]", outer_line, js(&names.join("<")), inner_line)
        } else {
            format!("{}", sm.lookup_char_pos(span.lo()).line)
        }
    }

    fn place(&mut self, body: &mir::Body<'tcx>, p: &Place<'tcx>) -> String {
        let tcx = self.tcx;
        let mut s = format!("[{},[", p.local.as_usize());
        let mut first = true;
        for (base, elem) in p.iter_projections() {
            if !first {
                s.push(',');
            }
            first = false;
            match elem {
                ProjectionElem::Deref => s.push_str("\"*\""),
                ProjectionElem::Field(f, _fty) => {
                    let bty = base.ty(body, tcx);
                    let mut name = String::new();
                    let mut adt = None;
                    if let ty::Adt(def, _) = bty.ty.kind() {
                        adt = Some(self.def(def.did()));
                        let vidx = bty.variant_index.unwrap_or(rustc_abi::FIRST_VARIANT);
                        if def.is_enum() || def.is_struct() || def.is_union() {
                            if let Some(v) = def.variants().get(vidx) {
                                if let Some(fd) = v.fields.get(f) {
                                    name = fd.name.to_string();
                                }
                            }
                        }
                    }
                    match adt {
                        Some(a) => write!(s, "[\"f\",{},{},{}]", f.as_usize(), js(&name), a).unwrap(),
                        None => write!(s, "[\"f\",{}]", f.as_usize()).unwrap(),
                    }
                }
                ProjectionElem::Downcast(name, vidx) => {
                    let n = name.map(|n| n.to_string()).unwrap_or_else(|| format!("#{}", vidx.as_usize()));
                    write!(s, "[\"v\",{}]", js(&n)).unwrap();
                }
                ProjectionElem::Index(l) => write!(s, "[\"i\",{}]", l.as_usize()).unwrap(),
                ProjectionElem::ConstantIndex { offset, from_end, .. } => {
                    write!(s, "[\"ci\",{},{}]", offset, if from_end { 1 } else { 0 }).unwrap()
                }
                ProjectionElem::Subslice { from, to, from_end } => {
                    write!(s, "[\"sub\",{},{},{}]", from, to, if from_end { 1 } else { 0 }).unwrap()
                }
                _ => s.push_str("[\"o\"]"),
            }
        }
        s.push(']');
        if !p.projection.is_empty() {
            let t = p.ty(body, tcx).ty;
            let ti = self.ty(t);
            write!(s, ",{}", ti).unwrap();
        }
        s.push(']');
        s
    }

    fn operand(&mut self, body: &mir::Body<'tcx>, env: ty::TypingEnv<'tcx>, o: &Operand<'tcx>) -> String {
        match o {
            Operand::Copy(p) => format!("[\"c\",{}]", self.place(body, p)),
            Operand::Move(p) => format!("[\"m\",{}]", self.place(body, p)),
            Operand::Constant(c) => {
                let t = c.const_.ty();
                let ti = self.ty(t);
                let mut s = format!("[\"k\",{{\"t\":{}", ti);
                if let ty::FnDef(did, args) = t.kind() {
                    let di = self.def(*did);
                    write!(s, ",\"fn\":{}", di).unwrap();
                    let mut gas = vec![];
                    for ga in args.iter() {
                        if let Some(t2) = ga.as_type() {
                            gas.push(self.ty(t2).to_string());
                        }
                    }
                    write!(s, ",\"ga\":[{}]", gas.join(",")).unwrap();
                } else {
                    let is_scalar = t.is_integral() || t.is_bool() || t.is_char();
                    if is_scalar {
                        if let Some(si) = c.const_.try_eval_scalar_int(self.tcx, env) {
                            let size = si.size();
                            let v: i128 = if t.is_signed() { si.to_int(size) } else { si.to_uint(size) as i128 };
                            write!(s, ",\"i\":{}", v).unwrap();
                        }
                    }
                    let disp = rustc_middle::ty::print::with_no_trimmed_paths!(format!("{}", c.const_));
                    write!(s, ",\"d\":{}", js(&trunc(&disp, 200))).unwrap();
                }
                s.push_str("}]");
                s
            }
            #[allow(unreachable_patterns)]
            _ => "[\"o\"]".to_string(),
        }
    }

    fn rvalue(&mut self, body: &mir::Body<'tcx>, env: ty::TypingEnv<'tcx>, rv: &Rvalue<'tcx>) -> String {
        match rv {
            Rvalue::Use(o, ..) => format!("[\"use\",{}]", self.operand(body, env, o)),
            Rvalue::Ref(_, bk, p) => {
                let k = match bk {
                    mir::BorrowKind::Shared => "shared",
                    mir::BorrowKind::Fake(_) => "fake",
                    mir::BorrowKind::Mut { .. } => "mut",
                };
                format!("[\"ref\",\"{}\",{}]", k, self.place(body, p))
            }
            Rvalue::RawPtr(k, p) => format!("[\"rawptr\",{},{}]", js(&format!("{:?}", k)), self.place(body, p)),
            Rvalue::Cast(kind, o, t) => {
                let ti = self.ty(*t);
                let fty = o.ty(body, self.tcx);
                let fi = self.ty(fty);
                let k = format!("{:?}", kind);
                let k = k.split('(').next().unwrap_or("").to_string();
                format!("[\"cast\",{},{},{},{}]", js(&k), self.operand(body, env, o), ti, fi)
            }
            Rvalue::BinaryOp(op, ab) => {
                let (a, b) = &**ab;
                format!("[\"bin\",{},{},{}]", js(&format!("{:?}", op)), self.operand(body, env, a), self.operand(body, env, b))
            }
            Rvalue::UnaryOp(op, a) => format!("[\"un\",{},{}]", js(&format!("{:?}", op)), self.operand(body, env, a)),
            Rvalue::Discriminant(p) => format!("[\"discr\",{}]", self.place(body, p)),
            Rvalue::Aggregate(kind, ops) => {
                let k = match &**kind {
                    mir::AggregateKind::Adt(did, vidx, _, _, active) => {
                        let def = self.tcx.adt_def(*did);
                        let v = def.variant(*vidx);
                        let di = self.def(*did);
                        let mut names: Vec<String> = v.fields.iter().map(|f| js(&f.name.to_string())).collect();
                        if let Some(af) = active {
                            // union: single active field
                            names = vec![js(&v.fields[*af].name.to_string())];
                        }
                        format!("[\"adt\",{},{},[{}]]", di, js(&v.name.to_string()), names.join(","))
                    }
                    mir::AggregateKind::Tuple => "[\"tuple\"]".to_string(),
                    mir::AggregateKind::Array(_) => "[\"array\"]".to_string(),
                    mir::AggregateKind::Closure(did, _) => format!("[\"closure\",{}]", self.def(*did)),
                    _ => "[\"other\"]".to_string(),
                };
                let os: Vec<String> = ops.iter().map(|o| self.operand(body, env, o)).collect();
                format!("[\"agg\",{},[{}]]", k, os.join(","))
            }
            Rvalue::Repeat(o, _) => format!("[\"repeat\",{}]", self.operand(body, env, o)),
            Rvalue::CopyForDeref(p) => format!("[\"use\",[\"c\",{}]]", self.place(body, p)),
            other => format!("[\"other\",{}]", js(&trunc(&format!("{:?}", other), 120))),
        }
    }

    // Callback edges through trait bounds: for a call to `callee<args>` whose body is not in the
    // workspace, every bound `T: Trait` with T instantiated to a closure / fn item / workspace type
    // yields edges to that type's implementation of the trait's methods.  Non-workspace impls are
    // followed recursively through *their* bounds (depth-limited).
    fn callbacks(&mut self, env: ty::TypingEnv<'tcx>, callee: DefId, cargs: ty::GenericArgsRef<'tcx>, depth: u32, out: &mut HashSet<DefId>, seen: &mut HashSet<(DefId, ty::GenericArgsRef<'tcx>)>) {
        if cargs.is_empty() || !seen.insert((callee, cargs)) {
            return;
        }
        if !cargs.iter().any(|ga| ga.as_type().is_some()) {
            return;
        }
        let tcx = self.tcx;
        let preds = tcx.predicates_of(callee).instantiate(tcx, cargs);
        for clause in preds.predicates.iter() {
            let clause = clause.skip_norm_wip();
            let Some(tp) = clause.as_trait_clause() else { continue };
            let tp = tp.skip_binder();
            let self_ty = tp.trait_ref.self_ty();
            let trait_did = tp.trait_ref.def_id;
            match self_ty.kind() {
                ty::Param(_) | ty::Infer(_) | ty::Placeholder(_) | ty::Alias(..) | ty::Bound(..) | ty::Error(_) => continue,
                ty::Bool | ty::Char | ty::Int(_) | ty::Uint(_) | ty::Float(_) | ty::Str | ty::Never => continue,
                _ => {}
            }
            if tcx.is_lang_item(trait_did, rustc_hir::LangItem::Sized)
                || tcx.is_lang_item(trait_did, rustc_hir::LangItem::Copy)
                || tcx.is_lang_item(trait_did, rustc_hir::LangItem::MetaSized)
                || tcx.is_lang_item(trait_did, rustc_hir::LangItem::PointeeSized)
            {
                continue;
            }
            match self_ty.kind() {
                ty::Closure(cdid, _) => {
                    out.insert(*cdid);
                    continue;
                }
                ty::FnDef(fdid, fargs) => {
                    let mut target = *fdid;
                    if let Ok(Some(inst)) = ty::Instance::try_resolve(tcx, env, *fdid, fargs) {
                        target = inst.def_id();
                    }
                    out.insert(target);
                    continue;
                }
                _ => {}
            }
            for item in tcx.associated_items(trait_did).in_definition_order() {
                if !matches!(item.kind, ty::AssocKind::Fn { .. }) {
                    continue;
                }
                let mg = tcx.generics_of(item.def_id);
                if mg.own_params.iter().any(|p| !matches!(p.kind, ty::GenericParamDefKind::Lifetime)) {
                    continue;
                }
                let margs = ty::GenericArgs::for_item(tcx, item.def_id, |param, _| {
                    if (param.index as usize) < tp.trait_ref.args.len() {
                        tp.trait_ref.args[param.index as usize]
                    } else {
                        tcx.lifetimes.re_erased.into()
                    }
                });
                if let Ok(Some(inst)) = ty::Instance::try_resolve(tcx, env, item.def_id, margs) {
                    let rd = inst.def_id();
                    if matches!(inst.def, ty::InstanceKind::Virtual(..)) {
                        // dyn Trait: record the trait method itself; CHA happens downstream
                        if is_workspace(tcx, rd) {
                            out.insert(rd);
                        }
                        continue;
                    }
                    if is_workspace(tcx, rd) {
                        out.insert(rd);
                    } else if depth > 0 && matches!(inst.def, ty::InstanceKind::Item(_)) {
                        self.callbacks(env, rd, inst.args, depth - 1, out, seen);
                    }
                }
            }
        }
    }
}

fn is_workspace(tcx: TyCtxt<'_>, did: DefId) -> bool {
    if did.is_local() {
        return true;
    }
    let n = tcx.crate_name(did.krate);
    let n = n.as_str();
    n.starts_with("koto") || n.starts_with("kf_fixture")
}

struct Cb;

impl rustc_driver::Callbacks for Cb {
    fn after_analysis<'tcx>(&mut self, _c: &rustc_interface::interface::Compiler, tcx: TyCtxt<'tcx>) -> Compilation {
        let out_dir = match std::env::var("KF_OUT") {
            Ok(d) => d,
            Err(_) => return Compilation::Continue,
        };
        let krate = tcx.crate_name(LOCAL_CRATE).to_string();
        if krate == "build_script_build" {
            return Compilation::Continue;
        }
        let crate_types: Vec<String> = tcx.crate_types().iter().map(|c| format!("{:?}", c)).collect();
        let mut cx = Cx { tcx, defs: vec![], def_map: HashMap::new(), tys: vec![], ty_map: HashMap::new(), cb_memo: HashMap::new() };
        let sm = tcx.sess.source_map();

        // ---- ADTs, traits, impls
        let mut adts: Vec<String> = vec![];
        let mut traits: Vec<String> = vec![];
        let mut impls: Vec<String> = vec![];
        for ldid in tcx.hir_crate_items(()).definitions() {
            let did = ldid.to_def_id();
            match tcx.def_kind(did) {
                DefKind::Struct | DefKind::Enum | DefKind::Union => {
                    let def = tcx.adt_def(did);
                    let kind = if def.is_enum() { "enum" } else if def.is_union() { "union" } else { "struct" };
                    let mut vs = vec![];
                    for v in def.variants().iter() {
                        let mut fs = vec![];
                        for f in v.fields.iter() {
                            let fty = tcx.type_of(f.did).instantiate_identity().skip_norm_wip();
                            let ti = cx.ty(fty);
                            let vis = if f.vis.is_public() { "pub" } else { "priv" };
                            fs.push(format!("[{},{},\"{}\"]", js(&f.name.to_string()), ti, vis));
                        }
                        let dv = if def.is_enum() {
                            let vi = def.variant_index_with_id(v.def_id);
                            format!("{}", def.discriminant_for_variant(tcx, vi).val)
                        } else {
                            "0".to_string()
                        };
                        vs.push(format!("{{\"name\":{},\"discr\":{},\"fields\":[{}]}}", js(&v.name.to_string()), dv, fs.join(",")));
                    }
                    let span = tcx.def_span(did);
                    let lo = sm.lookup_char_pos(span.lo());
                    let di = cx.def(did);
                    adts.push(format!(
                        "{{\"def\":{},\"kind\":\"{}\",\"repr\":{},\"variants\":[{}],\"file\":{},\"line\":{}}}",
                        di,
                        kind,
                        js(&format!("{:?}", def.repr())),
                        vs.join(","),
                        js(&format!("{}", lo.file.name.prefer_local_unconditionally())),
                        lo.line
                    ));
                }
                DefKind::Trait => {
                    let mut items = vec![];
                    for item in tcx.associated_items(did).in_definition_order() {
                        if !matches!(item.kind, ty::AssocKind::Fn { .. }) {
                            continue;
                        }
                        let has_default = item.defaultness(tcx).has_value();
                        let idi = cx.def(item.def_id);
                        items.push(format!("[{},{},{}]", js(&item.name().to_string()), idi, if has_default { 1 } else { 0 }));
                    }
                    let di = cx.def(did);
                    traits.push(format!("{{\"def\":{},\"items\":[{}]}}", di, items.join(",")));
                }
                DefKind::Impl { of_trait } => {
                    let self_ty = tcx.type_of(did).instantiate_identity().skip_norm_wip();
                    let sti = cx.ty(self_ty);
                    let mut tr = "null".to_string();
                    let mut targs = vec![];
                    if of_trait {
                        let tref = tcx.impl_trait_ref(did).instantiate_identity().skip_norm_wip();
                        tr = cx.def(tref.def_id).to_string();
                        for ga in tref.args.iter().skip(1) {
                            if let Some(t2) = ga.as_type() {
                                targs.push(cx.ty(t2).to_string());
                            }
                        }
                    }
                    let mut items = vec![];
                    for item in tcx.associated_items(did).in_definition_order() {
                        if !matches!(item.kind, ty::AssocKind::Fn { .. }) {
                            continue;
                        }
                        let idi = cx.def(item.def_id);
                        items.push(format!("[{},{}]", js(&item.name().to_string()), idi));
                    }
                    let derived = tcx.is_automatically_derived(did);
                    let span = tcx.def_span(did);
                    let lo = sm.lookup_char_pos(span.lo());
                    let di = cx.def(did);
                    impls.push(format!(
                        "{{\"def\":{},\"trait\":{},\"targs\":[{}],\"self\":{},\"derived\":{},\"items\":[{}],\"file\":{},\"line\":{},\"exp\":{}}}",
                        di,
                        tr,
                        targs.join(","),
                        sti,
                        derived,
                        items.join(","),
                        js(&format!("{}", lo.file.name.prefer_local_unconditionally())),
                        lo.line,
                        span.from_expansion()
                    ));
                }
                _ => {}
            }
        }

        // ---- function bodies
        let mut fns: Vec<String> = vec![];
        let mut hir_matches: Vec<String> = vec![];
        let mut n_calls = 0usize;
        let mut n_resolved = 0usize;
        let mut n_virtual = 0usize;
        for ldid in tcx.hir_body_owners() {
            let did = ldid.to_def_id();
            let kind = tcx.def_kind(did);
            if !matches!(kind, DefKind::Fn | DefKind::AssocFn | DefKind::Closure) {
                continue;
            }
            let body: &mir::Body<'tcx> = tcx.optimized_mir(did);
            let env = ty::TypingEnv::post_analysis(tcx, did);
            let di = cx.def(did);
            let mut f = format!("{{\"def\":{},\"kind\":\"{:?}\"", di, kind);
            let lo = sm.lookup_char_pos(body.span.lo());
            let hi = sm.lookup_char_pos(body.span.hi());
            write!(f, ",\"file\":{},\"line\":{},\"end_line\":{},\"exp\":{}", js(&format!("{}", lo.file.name.prefer_local_unconditionally())), lo.line, hi.line, body.span.from_expansion()).unwrap();
            if matches!(kind, DefKind::Closure) {
                let root = tcx.typeck_root_def_id(did);
                let parent = tcx.parent(did);
                write!(f, ",\"root\":{},\"parent\":{}", cx.def(root), cx.def(parent)).unwrap();
            } else {
                let vis = tcx.visibility(did);
                write!(f, ",\"vis\":{}", js(if vis.is_public() { "pub" } else { "restricted" })).unwrap();
                let sig = tcx.fn_sig(did).instantiate_identity().skip_binder();
                write!(f, ",\"unsafe\":{}", !sig.safety().is_safe()).unwrap();
            }
            if let Some(impl_did) = tcx.impl_of_assoc(did) {
                write!(f, ",\"impl\":{}", cx.def(impl_did)).unwrap();
                if tcx.is_automatically_derived(impl_did) {
                    f.push_str(",\"derived\":true");
                }
            } else if let Some(trait_did) = tcx.trait_of_assoc(did) {
                write!(f, ",\"trait\":{}", cx.def(trait_did)).unwrap();
            }
            write!(f, ",\"argc\":{}", body.arg_count).unwrap();
            // locals
            let mut names: HashMap<usize, String> = HashMap::new();
            let mut dbg: Vec<String> = vec![];
            for vdi in body.var_debug_info.iter() {
                if let mir::VarDebugInfoContents::Place(p) = &vdi.value {
                    if p.projection.is_empty() {
                        names.entry(p.local.as_usize()).or_insert_with(|| vdi.name.to_string());
                    } else {
                        let ps = cx.place(body, p);
                        dbg.push(format!("[{},{}]", js(&vdi.name.to_string()), ps));
                    }
                }
            }
            let mut ls = vec![];
            for (l, d) in body.local_decls.iter_enumerated() {
                let ti = cx.ty(d.ty);
                let n = names.get(&l.as_usize()).map(|s| js(s)).unwrap_or("null".to_string());
                ls.push(format!("[{},{},{}]", ti, n, if d.mutability.is_mut() { 1 } else { 0 }));
            }
            write!(f, ",\"locals\":[{}]", ls.join(",")).unwrap();
            if !dbg.is_empty() {
                write!(f, ",\"dbg\":[{}]", dbg.join(",")).unwrap();
            }
            // blocks
            let mut bs = vec![];
            for (_bb, data) in body.basic_blocks.iter_enumerated() {
                let mut b = String::from("{");
                if data.is_cleanup {
                    b.push_str("\"cleanup\":1,");
                }
                let mut sts = vec![];
                for st in &data.statements {
                    match &st.kind {
                        StatementKind::Assign(bx) => {
                            let (place, rv) = &**bx;
                            let p = cx.place(body, place);
                            let r = cx.rvalue(body, env, rv);
                            sts.push(format!("[\"a\",{},{},{}]", p, r, cx.loc(st.source_info.span)));
                        }
                        StatementKind::SetDiscriminant { place, variant_index } => {
                            let p = cx.place(body, place);
                            sts.push(format!("[\"sd\",{},{}]", p, variant_index.as_usize()));
                        }
                        _ => {}
                    }
                }
                write!(b, "\"s\":[{}]", sts.join(",")).unwrap();
                let term = data.terminator();
                let loc = cx.loc(term.source_info.span);
                let t = match &term.kind {
                    TerminatorKind::Goto { target } => format!("[\"goto\",{}]", target.as_usize()),
                    TerminatorKind::SwitchInt { discr, targets } => {
                        let d = cx.operand(body, env, discr);
                        let dty = cx.ty(discr.ty(body, tcx));
                        let ts: Vec<String> = targets.iter().map(|(v, bb)| format!("[{},{}]", v, bb.as_usize())).collect();
                        format!("[\"switch\",{},[{}],{},{},{}]", d, ts.join(","), targets.otherwise().as_usize(), dty, loc)
                    }
                    TerminatorKind::Return => "[\"ret\"]".to_string(),
                    TerminatorKind::Unreachable => "[\"unreachable\"]".to_string(),
                    TerminatorKind::UnwindResume => "[\"resume\"]".to_string(),
                    TerminatorKind::Drop { place, target, .. } => {
                        let ti = cx.ty(place.ty(body, tcx).ty);
                        format!("[\"drop\",{},{},{},{}]", cx.place(body, place), target.as_usize(), ti, loc)
                    }
                    TerminatorKind::Assert { cond, expected, msg, target, .. } => {
                        let (k, ops): (String, Vec<&Operand<'tcx>>) = match &**msg {
                            mir::AssertKind::Overflow(op, a, b) => (format!("Overflow:{:?}", op), vec![a, b]),
                            mir::AssertKind::OverflowNeg(a) => ("OverflowNeg".to_string(), vec![a]),
                            mir::AssertKind::DivisionByZero(a) => ("DivisionByZero".to_string(), vec![a]),
                            mir::AssertKind::RemainderByZero(a) => ("RemainderByZero".to_string(), vec![a]),
                            mir::AssertKind::BoundsCheck { len, index } => ("BoundsCheck".to_string(), vec![len, index]),
                            other => {
                                let d = format!("{:?}", other);
                                (d.split(|c: char| !c.is_alphanumeric()).next().unwrap_or("").to_string(), vec![])
                            }
                        };
                        let os: Vec<String> = ops.iter().map(|o| cx.operand(body, env, o)).collect();
                        format!("[\"assert\",{},{},{},{},[{}],{}]", js(&k), cx.operand(body, env, cond), expected, target.as_usize(), os.join(","), loc)
                    }
                    TerminatorKind::Call { func, args, destination, target, fn_span, .. } => {
                        n_calls += 1;
                        let mut c = String::from("{");
                        let fty = func.ty(body, tcx);
                        if let ty::FnDef(cdid, cargs) = fty.kind() {
                            write!(c, "\"f\":{}", cx.def(*cdid)).unwrap();
                            let mut gas = vec![];
                            let mut cls = vec![];
                            for ga in cargs.iter() {
                                if let Some(t2) = ga.as_type() {
                                    gas.push(cx.ty(t2).to_string());
                                    match t2.kind() {
                                        ty::Closure(d, _) => cls.push(cx.def(*d).to_string()),
                                        ty::FnDef(d, _) => cls.push(cx.def(*d).to_string()),
                                        _ => {}
                                    }
                                }
                            }
                            write!(c, ",\"ga\":[{}]", gas.join(",")).unwrap();
                            if !cls.is_empty() {
                                write!(c, ",\"cl\":[{}]", cls.join(",")).unwrap();
                            }
                            let mut resolved_ws = is_workspace(tcx, *cdid) && tcx.is_mir_available(*cdid);
                            match ty::Instance::try_resolve(tcx, env, *cdid, cargs) {
                                Ok(Some(inst)) => {
                                    n_resolved += 1;
                                    let rd = inst.def_id();
                                    if rd != *cdid {
                                        write!(c, ",\"r\":{}", cx.def(rd)).unwrap();
                                    }
                                    match inst.def {
                                        ty::InstanceKind::Item(_) => {
                                            resolved_ws = is_workspace(tcx, rd);
                                        }
                                        ty::InstanceKind::Virtual(..) => {
                                            n_virtual += 1;
                                            c.push_str(",\"v\":1");
                                            resolved_ws = true; // CHA downstream
                                        }
                                        ref other => {
                                            let k = format!("{:?}", other);
                                            write!(c, ",\"rk\":{}", js(k.split('(').next().unwrap_or(""))).unwrap();
                                            resolved_ws = false;
                                        }
                                    }
                                    let _ = resolved_ws;
                                    {
                                        let key = (rd, inst.args);
                                        let list = if let Some(v) = cx.cb_memo.get(&key) {
                                            v.clone()
                                        } else {
                                            let mut set: HashSet<DefId> = HashSet::new();
                                            let mut seen = HashSet::new();
                                            cx.callbacks(env, rd, inst.args, 3, &mut set, &mut seen);
                                            // also the bounds of the unresolved (trait) item itself
                                            if rd != *cdid {
                                                cx.callbacks(env, *cdid, cargs, 3, &mut set, &mut seen);
                                            }
                                            let mut v: Vec<DefId> = set.into_iter().collect();
                                            v.sort_by_key(|d| def_str(tcx, *d));
                                            cx.cb_memo.insert(key, v.clone());
                                            v
                                        };
                                        if !list.is_empty() {
                                            let l: Vec<String> = list.iter().map(|d| cx.def(*d).to_string()).collect();
                                            write!(c, ",\"cb\":[{}]", l.join(",")).unwrap();
                                        }
                                    }
                                }
                                _ => {
                                    c.push_str(",\"unres\":1");
                                    let mut set: HashSet<DefId> = HashSet::new();
                                    let mut seen = HashSet::new();
                                    cx.callbacks(env, *cdid, cargs, 3, &mut set, &mut seen);
                                    if !set.is_empty() {
                                        let mut sv: Vec<DefId> = set.iter().copied().collect();
                                        sv.sort_by_key(|d| def_str(tcx, *d));
                                        let l: Vec<String> = sv.iter().map(|d| cx.def(*d).to_string()).collect();
                                        write!(c, ",\"cb\":[{}]", l.join(",")).unwrap();
                                    }
                                }
                            }
                        } else {
                            write!(c, "\"ind\":{},\"indty\":{}", cx.operand(body, env, func), cx.ty(fty)).unwrap();
                        }
                        let os: Vec<String> = args.iter().map(|a| cx.operand(body, env, &a.node)).collect();
                        let ats: Vec<String> = args.iter().map(|a| cx.ty(a.node.ty(body, tcx)).to_string()).collect();
                        write!(c, ",\"args\":[{}],\"at\":[{}]", os.join(","), ats.join(",")).unwrap();
                        write!(c, ",\"dest\":{}", cx.place(body, destination)).unwrap();
                        match target {
                            Some(t) => write!(c, ",\"t\":{}", t.as_usize()).unwrap(),
                            None => c.push_str(",\"t\":null"),
                        }
                        write!(c, ",\"loc\":{},\"fnloc\":{}", loc, cx.loc(*fn_span)).unwrap();
                        c.push('}');
                        format!("[\"call\",{}]", c)
                    }
                    other => {
                        let succ: Vec<String> = other.successors().map(|b| b.as_usize().to_string()).collect();
                        let d = format!("{:?}", other);
                        format!("[\"other\",{},[{}]]", js(&trunc(&d, 60)), succ.join(","))
                    }
                };
                write!(b, ",\"t\":{}}}", t).unwrap();
                bs.push(b);
            }
            write!(f, ",\"blocks\":[{}]}}", bs.join(",")).unwrap();
            fns.push(f);

            // HIR match arms
            let hir_body = tcx.hir_body_owned_by(ldid);
            struct V<'a, 'tcx> {
                tcx: TyCtxt<'tcx>,
                out: &'a mut Vec<String>,
            }
            impl<'a, 'tcx> rustc_hir::intravisit::Visitor<'tcx> for V<'a, 'tcx> {
                fn visit_expr(&mut self, e: &'tcx rustc_hir::Expr<'tcx>) {
                    if let rustc_hir::ExprKind::Match(scrut, arms, src) = &e.kind {
                        if matches!(src, rustc_hir::MatchSource::Normal) {
                            let sm = self.tcx.sess.source_map();
                            let mut as_ = vec![];
                            for a in arms.iter() {
                                let p = rustc_hir_pretty::pat_to_string(&self.tcx, a.pat);
                                let g = a.guard.map(|g| js(&trunc(&rustc_hir_pretty::expr_to_string(&self.tcx, g), 300))).unwrap_or("null".to_string());
                                let lo = sm.lookup_char_pos(a.span.lo()).line;
                                let hi = sm.lookup_char_pos(a.span.hi()).line;
                                let body_s = if hi - lo <= 4 { trunc(&rustc_hir_pretty::expr_to_string(&self.tcx, a.body), 240) } else { "…".to_string() };
                                as_.push(format!("[{},{},{},{}]", js(&trunc(&p, 300)), g, lo, js(&body_s)));
                            }
                            let sl = sm.lookup_char_pos(e.span.lo()).line;
                            let sc = {
                                let lo = sm.lookup_char_pos(scrut.span.lo()).line;
                                let hi = sm.lookup_char_pos(scrut.span.hi()).line;
                                if hi - lo <= 2 { trunc(&rustc_hir_pretty::expr_to_string(&self.tcx, scrut), 160) } else { "…".to_string() }
                            };
                            self.out.push(format!("{{\"line\":{},\"exp\":{},\"scrut\":{},\"arms\":[{}]}}", sl, e.span.from_expansion(), js(&sc), as_.join(",")));
                        }
                    }
                    rustc_hir::intravisit::walk_expr(self, e);
                }
            }
            let mut ms = vec![];
            let mut v = V { tcx, out: &mut ms };
            rustc_hir::intravisit::Visitor::visit_expr(&mut v, hir_body.value);
            if !ms.is_empty() {
                hir_matches.push(format!("[{},[{}]]", di, ms.join(",")));
            }
        }

        // features / cfg
        let mut feats: Vec<String> = vec![];
        for (name, val) in tcx.sess.config.iter() {
            if name.as_str() == "feature" {
                if let Some(v) = val {
                    feats.push(js(v.as_str()));
                }
            }
        }
        feats.sort();
        let mut out = String::new();
        write!(out, "{{\"crate\":{},\"crate_types\":[{}],\"features\":[{}],", js(&krate), crate_types.iter().map(|s| js(s)).collect::<Vec<_>>().join(","), feats.join(",")).unwrap();
        write!(out, "\"stats\":{{\"fns\":{},\"calls\":{},\"resolved\":{},\"virtual\":{}}},", fns.len(), n_calls, n_resolved, n_virtual).unwrap();
        write!(out, "\"defs\":[{}],", cx.defs.join(",")).unwrap();
        write!(out, "\"types\":[{}],", cx.tys.join(",")).unwrap();
        write!(out, "\"adts\":[{}],", adts.join(",")).unwrap();
        write!(out, "\"traits\":[{}],", traits.join(",")).unwrap();
        write!(out, "\"impls\":[{}],", impls.join(",")).unwrap();
        write!(out, "\"hir_matches\":[{}],", hir_matches.join(",")).unwrap();
        write!(out, "\"fns\":[\n{}\n]}}", fns.join(",\n")).unwrap();
        std::fs::create_dir_all(&out_dir).ok();
        let id = tcx.stable_crate_id(LOCAL_CRATE);
        let fname = format!("{}/{}-{}-{:x}.json", out_dir, krate, crate_types.join("_"), id.as_u64());
        let tmp = format!("{}.tmp{}", fname, std::process::id());
        std::fs::write(&tmp, out).unwrap();
        std::fs::rename(&tmp, &fname).unwrap();
        eprintln!("kotofacts: crate={} types={:?} fns={} calls={} resolved={} virtual={}", krate, crate_types, fns.len(), n_calls, n_resolved, n_virtual);
        Compilation::Continue
    }
}

fn main() {
    let mut args: Vec<String> = std::env::args().collect();
    // RUSTC_WORKSPACE_WRAPPER passes: wrapper <rustc> <args>; drop argv[1]
    if args.len() > 1 && (args[1].ends_with("rustc") || args[1].contains("rustc")) {
        args.remove(1);
    }
    rustc_driver::run_compiler(&args, &mut Cb);
}
