#!/bin/bash
# run every registered thorough check (rules on both build configurations + the selftest catalogues) and print one line per property
cd "$(dirname "$0")/.."
rc=0
for p in $(python3 -c "import json; print(' '.join(c['property_id'] for c in json.load(open('MANIFEST.json'))['checks']))"); do
  cmd=$(python3 -c "import json; print([c for c in json.load(open('MANIFEST.json'))['checks'] if c['property_id']=='$p'][0]['thorough_cmd'])")
  t0=$(date +%s)
  out=$(bash -c "$cmd" 2>&1); e=$?
  echo "$p exit=$e $(( $(date +%s) - t0 ))s :: $(echo "$out" | grep -c '^OK') ok, $(echo "$out" | grep -c '^FAIL') fail, $(echo "$out" | grep -c '^SKIP') skip"
  echo "$out" | grep "^FAIL\|^SKIP\|VIOLATION\|CHECK-BROKEN" | head -10
  [ $e -ne 0 ] && rc=1
done
exit $rc
