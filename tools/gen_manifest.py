#!/usr/bin/env python3
"""Regenerate /verif/MANIFEST.json from kv.props (claimed properties) and the not-applicable table below."""
import json
import os
import sys

VERIF = os.path.dirname(os.path.dirname(os.path.abspath(__file__)))
sys.path.insert(0, VERIF)
from kv.props import PROPS, NOT_APPLICABLE, DESIGN_REF  # noqa: E402

checks = []
for pid in sorted(PROPS):
    p = PROPS[pid]
    checks.append({
        "property_id": pid,
        "quick_cmd": f"./check {pid} --tier quick",
        "thorough_cmd": f"./check {pid} --tier thorough",
        "evidence_file": f"/verif/evidence/{pid}.json",
        "replay_cmd_template": "cat {path}",
        "engine": "kotofacts+kv",
        "level_claimed": {
            "category": p.get("level", "other"),
            "text": p["clause"],
            "design_ref": DESIGN_REF.get(pid, "DESIGN.md section 5"),
        },
        "level_note": "Static analysis of rustc's type-checked MIR/HIR of /repo's current working tree (facts rebuilt on "
                      "every source change). Decides the named structural clauses only, which are necessary conditions of "
                      "the property; the behaviour itself is not decided. Trusted base: rustc nightly MIR construction and "
                      "trait resolution, the kotofacts driver, the kv rule engine; external trait objects are assumed to "
                      "honour their trait's documented contract.",
        "technique": p.get("technique", "static analysis over MIR facts"),
    })
m = {
    "version": 1,
    "setup_cmd": "cd /verif/kotofacts && CARGO_NET_OFFLINE=true cargo +nightly build --release --offline && cd /verif && python3 -m compileall -q kv",
    "hooks": {
        "guard": "koto_verif",
        "enable": "none needed: static analysis uses no instrumentation; checks run `cargo +nightly check --offline` on /repo "
                  "with the kotofacts rustc_private driver as RUSTC_WORKSPACE_WRAPPER (no source hooks)",
        "baseline_off_cmd": "cd /repo && cargo test --workspace --no-fail-fast --offline",
        "source_commits": [],
        "add_only": True,
    },
    "engines": [
        {"name": "kotofacts", "path": "/verif/kotofacts", "serves_properties": sorted(PROPS),
         "kind_free_text": "rustc_private compiler driver (RUSTC_WORKSPACE_WRAPPER) dumping MIR, resolved callees, "
                           "callback edges through trait bounds, ADTs, impls and HIR match arms as JSON facts"},
        {"name": "kv", "path": "/verif/kv", "serves_properties": sorted(PROPS),
         "kind_free_text": "Python rule engine: CFG/dominators, def-use, whole-workspace call graph (CHA + bounds), "
                           "ESP-style path-sensitive typestate, taint; property-specific rules; known-findings matching"},
    ],
    "checks": checks,
    "notes": "All checks are static: they never run Koto code or the test-suite. Exit 0 = every rule instance held "
             "(known findings listed in /verif/known_findings.txt are printed as KNOWN-FINDING); exit 1 = VIOLATION; "
             "exit 2 = CHECK-BROKEN (an anchor or floor of a rule was lost, the check cannot decide). "
             "Genuine defects repaired in /repo are the `fix:` commits listed as `fixed:` in known_findings.txt.",
    "not_applicable": [{"property_id": k, "reason": v} for k, v in sorted(NOT_APPLICABLE.items()) if k not in PROPS],
}
with open(os.path.join(VERIF, "MANIFEST.json"), "w") as f:
    json.dump(m, f, indent=1)
print("claimed:", sorted(PROPS), "not_applicable:", [x["property_id"] for x in m["not_applicable"]])
