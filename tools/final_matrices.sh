#!/bin/bash
# the two matrices at the current heads: every seeded change (expect the catalogued rule to fire) and every independent
# behaviour-preserving refactoring (expect silence) against every quick check
cd "$(dirname "$0")/.."
LANES=${LANES:-5} tools/detect_matrix.sh matrix_out > /dev/null
echo "=== seeded"; cat matrix_out/summary.txt
LANES=${LANES:-5} SRC=$PWD/benign tools/detect_matrix.sh matrix_benign > /dev/null
echo "=== benign"; cat matrix_benign/summary.txt
