#!/usr/bin/env python3
"""Turn the output of tools/detect_matrix.sh (summary.txt) into seeded/MATRIX.md and record the detection in each
seeded/<id>/meta.json.   usage: tools/matrix_to_md.py <summary.txt> <repo-head> <verif-commit> [benign]
With `benign` the summary is the one of `SRC=benign tools/detect_matrix.sh`: benign/MATRIX.md, where an empty cell is the expected
outcome."""
import json
import os
import re
import sys

HERE = os.path.dirname(os.path.dirname(os.path.abspath(__file__)))
summary, repo_head, verif_commit = sys.argv[1:4]
KIND = "benign" if len(sys.argv) > 4 and sys.argv[4] == "benign" else "seeded"
rows = []
for line in open(summary):
    parts = line.split()
    if not parts:
        continue
    sid = parts[0]
    det = {}
    for p in parts[1:]:
        m = re.match(r"(C\d\d):exit(\d)\[(.*)\]", p)
        if m:
            det[m.group(1)] = {"exit": int(m.group(2)), "rules": [x for x in m.group(3).split(",") if x]}
    rows.append((sid, det))
out = ["# Detection matrix" if KIND == "seeded" else "# False-alarm matrix (independent behaviour-preserving refactorings)", "",
       (f"Every registered quick check was run against every seeded change (patch applied to a scratch worktree of /repo at "
        f"`{repo_head}`, checks from /verif commit `{verif_commit}`, `tools/detect_matrix.sh`). A cell lists the checks that "
        f"exited 1 and the rules that reported; all other checks exited 0 (no cross-alarms). `—` = not detected: the change "
        f"is numeric / positional / in emitted control flow (see DESIGN.md §5 'not decided')." if KIND == "seeded" else
        f"Every registered quick check was run against every behaviour-preserving refactoring written by an independent "
        f"sub-agent (patch applied to a scratch worktree of /repo at `{repo_head}`, checks from /verif commit "
        f"`{verif_commit}`, `SRC=benign tools/detect_matrix.sh`). `—` is the expected outcome: every check exited 0. A cell "
        f"lists the checks that did not."), "",
       "| Seed | Property | Checks that fail (rules) | Summary of the change |", "|---|---|---|---|"]
caught = 0
for sid, det in rows:
    mp = os.path.join(HERE, KIND, sid, "meta.json")
    meta = json.load(open(mp)) if os.path.exists(mp) else {}
    cell = "; ".join(f"{p} ({', '.join(d['rules']) or 'exit ' + str(d['exit'])})" for p, d in sorted(det.items())) or "—"
    if det:
        caught += 1
    summ = (meta.get("summary") or "").replace("|", "\\|").replace("\n", " ")
    out.append(f"| {sid} | {meta.get('property', sid[:3])} | {cell} | {summ[:220]}{'…' if len(summ) > 220 else ''} |")
    if meta:
        meta["detection"] = {"repo_head": repo_head, "verif_commit": verif_commit,
                             "failing_checks": {p: d["rules"] for p, d in sorted(det.items())},
                             "detected": bool(det)}
        json.dump(meta, open(mp, "w"), indent=1, ensure_ascii=False)
        open(mp, "a").write("\n")
if KIND == "seeded":
    out += ["", f"Detected: {caught} of {len(rows)}."]
else:
    out += ["", f"Silent on all checks: {len(rows) - caught} of {len(rows)}. A non-empty cell is explained in the patch's meta.json "
                f"(`note`) and in DESIGN.md section 8 (round 4): C14_b1, C19_b3 and C19_b4 move a recorded defect to a new function / "
                f"callee, which exact-key suppression reports by design."]
open(os.path.join(HERE, KIND, "MATRIX.md"), "w").write("\n".join(out) + "\n")
print(f"detected {caught}/{len(rows)}")
