#!/bin/bash
# thorough checks of the given properties side by side (default: all); one line per property, details in thorough_<ID>.log
cd "$(dirname "$0")/.."
PROPS=${*:-$(python3 -c "import json; print(' '.join(c['property_id'] for c in json.load(open('MANIFEST.json'))['checks']))")}
./check C10 --tier quick > /dev/null 2>&1      # builds the driver and the fact cache once, before the lanes start
rc=0
for p in $PROPS; do
  (
    cmd=$(python3 -c "import json; print([c for c in json.load(open('MANIFEST.json'))['checks'] if c['property_id']=='$p'][0]['thorough_cmd'])")
    t0=$(date +%s)
    bash -c "$cmd" > "thorough_$p.log" 2>&1; e=$?
    echo "$p exit=$e $(( $(date +%s) - t0 ))s :: $(grep -c '^OK' thorough_$p.log) ok, $(grep -c '^FAIL' thorough_$p.log) fail, $(grep -c '^SKIP' thorough_$p.log) skip"
    grep "^FAIL\|^SKIP\|VIOLATION\|CHECK-BROKEN" "thorough_$p.log" | head -10
  ) &
done
wait
grep -L "exit=0" /dev/null > /dev/null
