#!/bin/bash
# run every registered quick check on /repo's current tree and validate MANIFEST + evidence against the schemas
cd "$(dirname "$0")/.."
rc=0
for p in $(python3 -c "import json; print(' '.join(c['property_id'] for c in json.load(open('MANIFEST.json'))['checks']))"); do
  out=$(./check $p --tier quick); e=$?
  echo "$out" | tail -1
  [ $e -ne 0 ] && { echo "  -> exit $e"; rc=1; }
done
python3-vt - <<'PY'
import json, jsonschema, glob
jsonschema.validate(json.load(open('MANIFEST.json')), json.load(open('/root/.vp/MANIFEST.schema.json')))
for f in sorted(glob.glob('evidence/*.json')):
    e = json.load(open(f))
    jsonschema.validate(e, json.load(open('/root/.vp/EVIDENCE.schema.json')))
    c = e['coverage']
    if e['level'] == 'proof':
        assert c['obligations'] == c['discharged'], (f, c['obligations'], c['discharged'])
print('manifest and evidence valid')
PY
exit $rc
