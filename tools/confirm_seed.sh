#!/bin/bash
# Re-confirm seeded changes in a scratch worktree (outside /repo and /verif) at /repo's HEAD:
# demo passes without the patch, fails with it, and the whole suite passes with it.
# usage: tools/confirm_seed.sh <scratch-worktree> <out-dir> <seed-dir>...
set -u
WT=$1; OUT=$2; shift 2
mkdir -p "$OUT"
git -C "$WT" checkout -q --detach "$(git -C /repo rev-parse HEAD)" || exit 2
export CARGO_TARGET_DIR="$WT/target" CARGO_NET_OFFLINE=true
for S in "$@"; do
  N=$(basename "$S"); R="$OUT/$N.txt"; : > "$R"
  echo "head $(git -C "$WT" rev-parse --short HEAD)" >> "$R"
  git -C "$WT" reset -q --hard; git -C "$WT" clean -fdq -e target
  ARC=""; grep -q '"needs_arc": *true' "$S"/notes.json "$S"/meta.json 2>/dev/null && ARC="--no-default-features --features arc"
  run_demo() { cp "$S/demo_test.rs" "$WT/crates/koto/tests/seed_demo.rs"; (cd "$WT" && timeout 1500 cargo test -j 4 -p koto $ARC --test seed_demo --offline > "$OUT/$N.demo.$1.log" 2>&1); rc=$?; rm -f "$WT/crates/koto/tests/seed_demo.rs"; return $rc; }
  run_demo clean; echo "demo_without_patch exit=$?" >> "$R"
  if ! git -C "$WT" apply "$S/patch.diff" 2>>"$R"; then
     git -C "$WT" apply --3way "$S/patch.diff" 2>>"$R" || { echo "APPLY_FAILED" >> "$R"; continue; }
     git -C "$WT" reset -q; git -C "$WT" diff > "$OUT/$N.rebased.diff"; echo "rebased" >> "$R"
  fi
  run_demo patched; echo "demo_with_patch exit=$?" >> "$R"
  (cd "$WT" && cargo test --workspace --no-fail-fast --offline -j 4 > "$OUT/$N.suite.log" 2>&1)
  grep "^test result" "$OUT/$N.suite.log" | awk '{p+=$4; f+=$6} END {print "suite_with_patch passed=" p " failed=" f}' >> "$R"
  git -C "$WT" reset -q --hard; git -C "$WT" clean -fdq -e target
  echo "done" >> "$R"
done
