#!/bin/bash
# Detection matrix: apply every seeded change (seeded/<id>/patch.diff) to a scratch worktree of /repo's HEAD (outside /repo
# and /verif), run every registered quick check against it (KV_REPO), and record which checks report a violation.
# usage: [LANES=n] [SRC=dir] tools/detect_matrix.sh [out-dir] [seed ...]   (default: all seeds of seeded/; out-dir: ./matrix_out)
set -u
HERE=$(cd "$(dirname "$0")/.." && pwd)
OUT=${1:-$HERE/matrix_out}; shift || true
mkdir -p "$OUT"
SRC=${SRC:-$HERE/seeded}      # SRC=$HERE/benign runs the same matrix over the behaviour-preserving edits (expect no alarm)
SEEDS=${*:-$(ls -d "$SRC"/C??_* | xargs -n1 basename)}
PROPS=${ONLY_PROPS:-$(python3 -c "import json;print(' '.join(c['property_id'] for c in json.load(open('$HERE/MANIFEST.json'))['checks']))")}   # ONLY_PROPS="C04 C07": a sub-matrix
LANES=${LANES:-3}

lane() {   # lane <n> <seed...>
  local N=$1; shift
  local WT; WT=$(mktemp -d /tmp/kv_matrix_XXXXXX)
  git -C /repo worktree add -q --detach "$WT" HEAD || return 2
  : > "$OUT/summary.$N.txt"
  for S in "$@"; do
    P="$SRC/$S/patch.diff"
    git -C "$WT" reset -q --hard; git -C "$WT" clean -fdq
    if ! git -C "$WT" apply "$P" 2>/dev/null; then echo "$S APPLY_FAILED" >> "$OUT/summary.$N.txt"; continue; fi
    row=""
    for p in $PROPS; do
      KV_REPO="$WT" "$HERE/check" "$p" --tier quick > "$OUT/$S.$p.log" 2>&1; rc=$?
      if [ $rc -ne 0 ]; then
        rules=$(grep "^VIOLATION\|rule=" "$OUT/$S.$p.log" | grep -o "rule=[A-Z0-9-]*" | sort -u | sed 's/rule=//' | tr '\n' ',' | sed 's/,$//')
        row="$row $p:exit$rc[$rules]"
      else
        rm -f "$OUT/$S.$p.log"
      fi
    done
    echo "$S$row" >> "$OUT/summary.$N.txt"
  done
  git -C /repo worktree remove --force "$WT" 2>/dev/null; rm -rf "$WT"
}

# make sure the driver is built before the lanes start (they would race on the build otherwise)
"$HERE/check" C10 --tier quick > /dev/null 2>&1
i=0
for n in $(seq 1 "$LANES"); do
  mine=$(echo $SEEDS | tr ' ' '\n' | awk -v n="$n" -v k="$LANES" '(NR-1)%k==n-1' | tr '\n' ' ')
  [ -n "$mine" ] && lane "$n" $mine &
done
wait
cat "$OUT"/summary.[0-9]*.txt | sort > "$OUT/summary.txt"
rm -f "$OUT"/summary.[0-9]*.txt
cat "$OUT/summary.txt"
