//! Probe: copy to crates/parser/tests/probe_string_slice.rs; cargo test -p koto_parser --test probe_string_slice --offline
//! `StringSlice::split(offset)` checked `is_char_boundary` on the *shared buffer* only: on a sub-slice an offset beyond
//! the slice's own end that is a boundary of the buffer produced a second part with inverted bounds (8..6), and `as_str()`
//! then ran `get_unchecked(8..6)` -- undefined behaviour through a safe API (a debug-assertion panic in debug builds).
use koto_parser::StringSlice;

#[test]
fn split_offset_beyond_the_end_of_a_sub_slice_is_none() {
    let whole = StringSlice::<usize>::from("___xyz___".to_string());
    let sub = whole.with_bounds(3..6).unwrap();
    assert_eq!(sub.as_str(), "xyz");
    // in range: fine
    let (a, b) = sub.split(1).unwrap();
    assert_eq!((a.as_str(), b.as_str()), ("x", "yz"));
    let (a, b) = sub.split(3).unwrap();
    assert_eq!((a.as_str(), b.as_str()), ("xyz", ""));
    // beyond the slice's end, but inside the shared buffer
    assert!(sub.split(5).is_none(), "split(5) on a 3-byte slice must be None");
}
