//! Host API probe: copy to crates/koto/tests/probe_write_op.rs and run
//!   cargo test -p koto --test probe_write_op --offline
//! `KotoVm::run_write_op(WriteOp::IndexAssign, container, index, value)` passed
//! (container, container, index) to run_index_assign: the container was used as the index and the index
//! as the value; fixed by 'fix: pass the index and value registers to run_index_assign in run_write_op'.
use koto::runtime::{KList, KMap, KNumber, KValue, KotoVm, WriteOp};

fn number(v: &KValue) -> i64 {
    match v {
        KValue::Number(KNumber::I64(n)) => *n,
        other => panic!("expected an integer, found {}", other.type_as_string()),
    }
}

#[test]
fn index_assign_through_the_host_api() {
    let mut vm = KotoVm::default();
    let list = KList::from_slice(&[1.into(), 2.into(), 3.into()]);
    let result = vm.run_write_op(
        WriteOp::IndexAssign,
        KValue::List(list.clone()),
        0.into(),
        42.into(),
    );
    assert!(result.is_ok(), "{}", result.err().map(|e| e.to_string()).unwrap_or_default());
    assert_eq!(number(&list.data()[0]), 42);
    assert_eq!(number(&list.data()[1]), 2);
}

#[test]
fn access_assign_through_the_host_api() {
    let mut vm = KotoVm::default();
    let map = KMap::default();
    map.insert("a", 1);
    let result = vm.run_write_op(
        WriteOp::AccessAssign,
        KValue::Map(map.clone()),
        "a".into(),
        7.into(),
    );
    assert!(result.is_ok(), "{}", result.err().map(|e| e.to_string()).unwrap_or_default());
    assert_eq!(number(&map.get("a").unwrap()), 7);
}
