// arc build: `l[-1]` in one thread while another thread pushes / pops the same list.
// (before the fix) run_index validated the index against `l.len()` (one read lock) and then indexed `l.data()[index]` (another):
// a pop in between makes the index panic. `cp /repo/Cargo.lock . && CARGO_TARGET_DIR=/tmp/race_index cargo run --offline`
use koto::prelude::*;
use std::thread;

fn main() {
    let shared = KList::default();
    let mut handles = vec![];
    for t in 0..4 {
        let shared = shared.clone();
        handles.push(thread::spawn(move || {
            let mut koto = Koto::default();
            koto.prelude().insert("shared", KValue::List(shared));
            let script = if t % 2 == 0 {
                "n = 0\nfor i in 0..3000000\n  try\n    x = shared[0]\n  catch _\n    n += 1\nn"
            } else {
                "for i in 0..3000000\n  shared.push i\n  shared.pop()\n"
            };
            match koto.compile_and_run(script) {
                Ok(_) => println!("thread {t}: ok"),
                Err(e) => println!("thread {t}: error {e}"),
            }
        }));
    }
    let mut panicked = 0;
    for h in handles {
        if h.join().is_err() {
            panicked += 1;
        }
    }
    println!("threads panicked: {panicked}");
}
