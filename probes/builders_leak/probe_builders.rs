// Probe for the builder stacks after an error that nobody catches (C07). The stacks are private, so the probe is a child
// test module of crates/runtime/src/vm.rs: append `#[cfg(test)] #[path = "<this file>"] mod probe_builders;` to vm.rs (in a
// scratch worktree) and run `cargo test -p koto_runtime --lib probe_builders --offline`.
// Before 'fix: discard unfinished sequences and strings ..' each failing script left its builders behind (seq=3, str=1, ..),
// and they were never removed for the life of the VM.
use super::*;
use koto_bytecode::CompilerSettings;

fn run(vm: &mut KotoVm, script: &str) -> bool {
    let chunk = vm
        .loader()
        .borrow_mut()
        .compile_script(script, None, CompilerSettings::default())
        .unwrap();
    vm.run(chunk).is_ok()
}

#[test]
fn builders_are_discarded_when_an_error_leaves_the_vm() {
    let mut vm = KotoVm::default();
    assert!(run(&mut vm, "x = [1, [2, 3]]"));
    assert_eq!((vm.sequence_builders.len(), vm.string_builders.len()), (0, 0));
    for script in [
        "y = [1, 2, [3, 4, (5, 6, null + 1)]]",
        "x = 'a {1 + 1} b {null + 1} c'",
        "z = {a: 1, b: [1, 2, 1 / 'x']}",
        "f = || [1, (2, throw 'x')]\nw = ['{f()}']",
    ] {
        assert!(!run(&mut vm, script), "expected an error: {script}");
        assert_eq!(
            (vm.sequence_builders.len(), vm.string_builders.len()),
            (0, 0),
            "builders left behind by: {script}"
        );
    }
    // an error that is caught keeps working as before
    assert!(run(&mut vm, "r = try\n  [1, null + 1]\ncatch e\n  [0]\nassert_eq r, [0]"));
    assert_eq!((vm.sequence_builders.len(), vm.string_builders.len()), (0, 0));
}
