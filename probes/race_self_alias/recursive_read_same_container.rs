#![cfg(feature = "arc")]
use koto::prelude::*;
use std::{sync::mpsc, thread, time::Duration};

fn run_pair(reader_script: &'static str, writer_script: &'static str) -> bool {
    let shared = KList::default();
    let other = KMap::default();
    other.insert("x", 1);
    let (tx, rx) = mpsc::channel::<&'static str>();
    for (name, script) in [("reader", reader_script), ("writer", writer_script)] {
        let shared = shared.clone();
        let other = other.clone();
        let tx = tx.clone();
        thread::spawn(move || {
            let mut koto = Koto::default();
            koto.prelude().insert("shared", shared);
            koto.prelude().insert("shared_map", other);
            koto.compile_and_run(script).unwrap();
            tx.send(name).unwrap();
        });
    }
    let mut done = 0;
    while done < 2 {
        match rx.recv_timeout(Duration::from_secs(20)) {
            Ok(name) => {
                eprintln!("{name} finished");
                done += 1;
            }
            Err(_) => return false,
        }
    }
    true
}

const WRITER: &str = "
for i in 0..300000
  shared.push i
  shared.pop()
  shared_map.insert 'k', i
";

#[test]
fn list_equal_self() {
    let ok = run_pair(
        "
for i in 0..300000
  x = shared == shared
",
        WRITER,
    );
    assert!(ok, "deadlock: threads did not finish within 20s");
}

#[test]
fn list_add_self() {
    let ok = run_pair(
        "
for i in 0..300000
  x = shared + shared
",
        WRITER,
    );
    assert!(ok, "deadlock: threads did not finish within 20s");
}

#[test]
fn map_equal_self() {
    let ok = run_pair(
        "
for i in 0..300000
  x = shared_map == shared_map
",
        WRITER,
    );
    assert!(ok, "deadlock: threads did not finish within 20s");
}

#[test]
fn control_single_borrow() {
    let ok = run_pair(
        "
for i in 0..300000
  x = size shared
  y = shared.first()
",
        WRITER,
    );
    assert!(ok, "deadlock: threads did not finish within 20s");
}
