use koto::prelude::*;
use std::thread;

fn main() {
    let shared = KList::default();
    let mut handles = vec![];
    for t in 0..4 {
        let shared = shared.clone();
        handles.push(thread::spawn(move || {
            let mut koto = Koto::default();
            koto.prelude().insert("shared", KValue::List(shared));
            let script = if t % 2 == 0 {
                "for i in 0..200000\n  shared.push i\n  if (size shared) > 0\n    try\n      shared.remove 0\n    catch _\n      null\n"
            } else {
                "for i in 0..200000\n  shared.clear()\n"
            };
            match koto.compile_and_run(script) {
                Ok(_) => println!("thread {t}: ok"),
                Err(e) => println!("thread {t}: error {e}"),
            }
        }));
    }
    let mut panicked = 0;
    for h in handles {
        if h.join().is_err() {
            panicked += 1;
        }
    }
    println!("threads panicked: {panicked}");
}
