//! Probe for R-SERDE-NARROW (C20): numbers that do not fit the requested Rust type.
//! cp /repo/Cargo.lock . && cargo run --offline
use koto::runtime::KValue;
use koto_serde::from_koto_value;

macro_rules! probe {
    ($t:ty, $v:expr) => {{
        let value: KValue = $v.into();
        match from_koto_value::<$t>(value) {
            Ok(x) => println!("{:>5} <- {:<24} Ok({x})", stringify!($t), stringify!($v)),
            Err(e) => println!("{:>5} <- {:<24} Err({e})", stringify!($t), stringify!($v)),
        }
    }};
}

fn main() {
    probe!(u8, 300);
    probe!(u8, -1);
    probe!(i8, 200);
    probe!(i16, 70000);
    probe!(u16, 70000);
    probe!(i32, 5_000_000_000_i64);
    probe!(u32, 5_000_000_000_i64);
    probe!(i32, 1.5);
    probe!(i64, 1.5);
    probe!(u64, 1.5);
    probe!(i128, 1.5);
    probe!(u128, 1.5);
    probe!(u64, -1);
    probe!(i64, 1e30);
}
