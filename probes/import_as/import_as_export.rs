//! Probe: copy to crates/koto/tests/probe_import_as.rs; cargo test -p koto --test probe_import_as --offline
//! With top-level exporting on (REPL mode) `import .. as name` bound the local `name` but exported the value under
//! the item's original id (or, for string items, not at all), so the next REPL entry could not see `name`.
use koto::prelude::*;

fn run_exporting(koto: &mut Koto, script: &str) -> KValue {
    koto.compile_and_run(CompileArgs::new(script).export_top_level_ids(true))
        .unwrap_or_else(|e| panic!("{e}\nscript: {script}"))
}

#[test]
fn from_import_as_exports_the_alias() {
    let mut koto = Koto::default();
    run_exporting(&mut koto, "from number import pi as p");
    assert!(koto.exports().get("p").is_some(), "alias `p` is not exported");
    assert!(koto.exports().get("pi").is_none(), "`pi` was exported although only `p` was bound");
    // the next entry sees the alias
    run_exporting(&mut koto, "q = p * 2");
}

#[test]
fn import_as_exports_the_alias() {
    let mut koto = Koto::default();
    run_exporting(&mut koto, "import number as n");
    assert!(koto.exports().get("n").is_some(), "alias `n` is not exported");
    assert!(koto.exports().get("number").is_none());
    run_exporting(&mut koto, "x = n.pi");
}

#[test]
fn string_items_with_alias_are_exported() {
    let mut koto = Koto::default();
    run_exporting(&mut koto, "from number import 'pi' as p2");
    assert!(koto.exports().get("p2").is_some(), "alias `p2` is not exported");
    run_exporting(&mut koto, "import 'number' as n2");
    assert!(koto.exports().get("n2").is_some(), "alias `n2` is not exported");
}

#[test]
fn plain_imports_are_still_exported_under_their_name() {
    let mut koto = Koto::default();
    run_exporting(&mut koto, "from number import pi");
    assert!(koto.exports().get("pi").is_some());
    run_exporting(&mut koto, "import string");
    assert!(koto.exports().get("string").is_some());
}
